"""Engine M: Miri as the instruction-level deterministic scheduler.

One (scenario seed, miri seed) pair is one exactly repeatable execution of the real a5 code
(std's OnceLock / LazyLock / Once / thread_local! included) under Miri's seeded scheduler, weak
memory emulation and data-race detector. The scenario program is /verif/miri/src/main.rs."""
import json
import os
import re
import subprocess
import time
from concurrent.futures import ThreadPoolExecutor

ROOT = os.path.dirname(os.path.abspath(__file__))
MIRI_DIR = os.path.join(ROOT, "miri")
MIRI_DIR_OVERRIDE = None
BASE_FLAGS = ["-Zmiri-deterministic-floats", "-Zmiri-ignore-leaks", "-Zmiri-disable-stacked-borrows"]
# preemption probability per basic block, chosen per execution from the Miri seed: coarse slices
# find races between whole operations, fine slices find windows of a few instructions
PREEMPTION_RATES = ["0.05", "0.05", "0.2", "0.5"]
TIMEOUT_S = 900
# quick tier: big-input executions stop just past the size thresholds that matter (9 000 cells, 8 500 vertices)
QUICK_CAPS = False


def _env(miri_seed):
    e = dict(os.environ)
    e["CARGO_NET_OFFLINE"] = "true"
    e["CARGO_TERM_COLOR"] = "never"
    e["MIRIFLAGS"] = " ".join(BASE_FLAGS + ["-Zmiri-preemption-rate=" + PREEMPTION_RATES[miri_seed % 4], "-Zmiri-seed=%d" % miri_seed])
    return e


def prepare():
    """Build the scenario program for Miri from /repo's current tree. Returns (ok, output)."""
    global MIRI_DIR
    if MIRI_DIR_OVERRIDE:
        MIRI_DIR = MIRI_DIR_OVERRIDE
    r = subprocess.run(["cargo", "+nightly", "miri", "run", "--offline", "-q", "--", "0", "--list"], cwd=MIRI_DIR,
                       env=_env(0), stdout=subprocess.PIPE, stderr=subprocess.STDOUT, text=True)
    return r.returncode == 0, r.stdout


def classify(rc, out):
    if "Data race detected" in out:
        return "data_race"
    if "deadlock" in out.lower():
        return "deadlock"
    if "MISMATCH" in out:
        return "result_mismatch"
    if "Undefined Behavior" in out:
        return "undefined_behavior"
    if "panicked at" in out:
        return "panic"
    if "unsupported operation" in out:
        return "unsupported"
    if rc == 0 and "MIRI-SCN" in out:
        return "clean"
    if rc == -9:
        # ran into the wall-clock cap: nothing was decided by this execution. Never an alarm and
        # never a harness error - a tree whose threads do more work under the interpreter (each of
        # 130 threads building a table of its own, say) is slow, not wrong; a call that really
        # never returns is Engine H's business (I5).
        return "timeout"
    return "harness"


def _special(population):
    """population > 0: N caller threads alive at once; population < 0: big-input profile of depth -N"""
    if not population:
        return []
    if population > 0:
        return ["--population", str(population)]
    if population <= -100:
        # dense-boundary variant of the big-input profile
        return ["--big", str(-population - 100), "--variant", "1"] + (["--cap", "8500"] if QUICK_CAPS else [])
    return ["--big", str(-population)] + (["--cap", "9000"] if QUICK_CAPS and population == -7 else [])


def run_one(scn_seed, miri_seed, threads_mask=None, max_ops=None, population=None):
    args = ["cargo", "+nightly", "miri", "run", "--offline", "-q", "--", str(scn_seed)]
    args += _special(population)
    if threads_mask is not None:
        args += ["--threads-mask", str(threads_mask)]
    if max_ops is not None:
        args += ["--max-ops", str(max_ops)]
    t0 = time.time()
    try:
        # (the largest special executions of the thorough tier - 257 threads, 81 920 cells - get four times the cap)
        cap = TIMEOUT_S * 4 if population and (population > 200 or population in (-8, -108)) else TIMEOUT_S
        r = subprocess.run(args, cwd=MIRI_DIR, env=_env(miri_seed), stdout=subprocess.PIPE, stderr=subprocess.STDOUT, text=True, timeout=cap)
        rc, out = r.returncode, r.stdout
    except subprocess.TimeoutExpired as ex:
        rc, out = -9, (ex.stdout or "") + "\nTIMEOUT"
    kind = classify(rc, out)
    m = re.search(r"MIRI-SCN seed=(\d+) threads=(\d+) ops=(\d+) distinct_ops=(\d+) order=([0-9a-f]+) overlap=(\w+) mismatches=(\d+)", out)
    info = None
    if m:
        info = dict(threads=int(m.group(2)), ops=int(m.group(3)), distinct_ops=int(m.group(4)), order=m.group(5), overlap=m.group(6) == "true")
        rh = re.search(r"REFHASH ([0-9a-f]+)", out)
        info["refhash"] = rh.group(1) if rh else None
    detail = ""
    if kind not in ("clean",):
        lines = [l for l in out.splitlines() if ("error" in l or "MISMATCH" in l or "panicked" in l or "Data race" in l or "deadlock" in l.lower())]
        detail = " | ".join(lines[:3])[:600]
    return dict(scn_seed=scn_seed, miri_seed=miri_seed, threads_mask=threads_mask, max_ops=max_ops, population=population, kind=kind, info=info,
                detail=detail, wall_s=time.time() - t0, tail=out[-1500:] if kind == "harness" else "")


def list_plan(scn_seed, threads_mask=None, max_ops=None, population=None):
    # native listing (no interpretation needed): the plan is a pure function of the scenario seed
    args = ["cargo", "+nightly", "miri", "run", "--offline", "-q", "--", str(scn_seed), "--list"]
    args += _special(population)
    if threads_mask is not None:
        args += ["--threads-mask", str(threads_mask)]
    if max_ops is not None:
        args += ["--max-ops", str(max_ops)]
    r = subprocess.run(args, cwd=MIRI_DIR, env=_env(0), stdout=subprocess.PIPE, stderr=subprocess.STDOUT, text=True)
    return [l for l in r.stdout.splitlines() if re.match(r"t\d+:", l)]


def minimise(fail, jobs):
    """Shrink a failing (scenario, miri seed): fewer threads, fewer ops per thread; up to 16 Miri
    seeds are tried per candidate; a candidate is accepted only if the same kind of failure shows."""
    kind = fail["kind"]
    best = dict(fail)
    if (fail.get("population") or 0) < 0:
        # big-input profile: smaller inputs, side by side
        code = -fail["population"]
        base, n = (100, code - 100) if code >= 100 else (0, code)
        cands = [c for c in (n - 2, n - 1) if c >= 3]
        with ThreadPoolExecutor(max_workers=jobs) as ex:
            res = list(ex.map(lambda c: run_one(fail["scn_seed"], fail["miri_seed"], None, None, -(base + c)), cands))
        for r in res:
            if r["kind"] == kind:
                best = r
                break
        best["shrink_evals"] = len(cands)
        return best
    if fail.get("population"):
        # population profile: one round of smaller populations, run side by side (an execution costs
        # about one second per thread)
        n = fail["population"]
        cands = sorted(set(c for c in (n // 2, (3 * n) // 4, n - 1) if 2 <= c < n))
        with ThreadPoolExecutor(max_workers=jobs) as ex:
            res = list(ex.map(lambda c: run_one(fail["scn_seed"], fail["miri_seed"], None, None, c), cands))
        for r in res:
            if r["kind"] == kind:
                best = r
                break
        best["shrink_evals"] = len(cands)
        return best
    nthreads = (fail.get("info") or {}).get("threads") or 4
    mask = fail["threads_mask"] if fail["threads_mask"] is not None else (1 << nthreads) - 1
    max_ops = fail["max_ops"]
    evals = 0

    def attempt(mask_c, max_ops_c):
        nonlocal evals
        seeds = [best["miri_seed"]] + [s for s in range(16) if s != best["miri_seed"]]
        with ThreadPoolExecutor(max_workers=jobs) as ex:
            futs = [ex.submit(run_one, fail["scn_seed"], s, mask_c, max_ops_c) for s in seeds[:16]]
            res = [f.result() for f in futs]
        evals += len(res)
        for r in res:
            if r["kind"] == kind:
                return r
        return None

    # drop threads one at a time
    for t in range(nthreads):
        if bin(mask).count("1") <= 1:
            break
        if not (mask >> t) & 1:
            continue
        cand = mask & ~(1 << t)
        r = attempt(cand, max_ops)
        if r:
            best, mask = r, cand
    # fewer ops per thread
    for k in (1, 2, 3, 4):
        if max_ops is not None and k >= max_ops:
            break
        r = attempt(mask, k)
        if r:
            best, max_ops = r, k
            break
    best["threads_mask"] = mask
    best["max_ops"] = max_ops
    best["shrink_evals"] = evals
    return best


def population_pairs(seed, executions):
    global QUICK_CAPS
    QUICK_CAPS = False  # (caps are available for experiments; the tiers do not use them)
    # (negative: big-input profile, two threads with one call each on inputs of 5*4^(d-1) cells)
    # (-(100+d): the same with a dense boundary - 10 240 vertices for d = 7 - instead of compact)
    pops = [130, 33, -5, -105] if executions <= 256 else [257, 131, 130, 129, 129, 66, 65, 34, 33, 18, 17, -7, -7, -7, -6, -6, -5, -8, -107, -107, -106, -105]
    return [((seed * 31 + 977 * j) % (1 << 48), (seed + 7 * j) % (1 << 31), n) for j, n in enumerate(pops)]


_POOL = None


def start_population(seed, executions):
    """Start the population executions in the background; returns a future of their results."""
    global _POOL
    ok, out = prepare()
    if not ok:
        return None
    pp = population_pairs(seed, executions)
    _POOL = ThreadPoolExecutor(max_workers=len(pp))
    futs = [_POOL.submit(run_one, p[0], p[1], None, None, p[2]) for p in pp]

    class _All:
        def result(self):
            return [f.result() for f in futs]

    return _All()


def run_engine(seed, executions, jobs, replay_dir, seeds_per_scenario=4, population_future=None):
    t0 = time.time()
    ok, out = prepare()
    if not ok:
        return dict(harness_error="Miri build failed: " + out[-2000:], executions=0, distinct_nontrivial=0, summary={}, violations=[], samples=[])
    n_scn = max(1, executions // seeds_per_scenario)
    pairs = []
    for i in range(n_scn):
        scn = (seed * 1000003 + i * 7919) % (1 << 48)
        for k in range(seeds_per_scenario):
            pairs.append((scn, (seed + 31 * i + k) % (1 << 31)))
    pairs = [(a, b, None) for a, b in pairs[:executions]]
    # population profile (many simultaneously alive caller threads, just past a power of two):
    # the longest executions (about a second per thread), so the driver starts them ahead of
    # everything else (`start_population`) and they are only collected here
    pop_pairs = population_pairs(seed, executions)
    pops = [p[2] for p in pop_pairs]
    with ThreadPoolExecutor(max_workers=jobs) as ex:
        results = list(ex.map(lambda p: run_one(p[0], p[1], None, None, p[2]), pairs))
    if population_future is not None:
        pop_results = population_future.result()
    else:
        with ThreadPoolExecutor(max_workers=jobs) as ex:
            pop_results = list(ex.map(lambda p: run_one(p[0], p[1], None, None, p[2]), pop_pairs))
    pairs = pop_pairs + pairs
    results = pop_results + results
    # determinism sample: first few pairs again, must give the identical event order
    det_pairs = pairs[len(pop_pairs): len(pop_pairs) + max(2, min(8, len(pairs) // 8))]
    with ThreadPoolExecutor(max_workers=jobs) as ex:
        again = list(ex.map(lambda p: run_one(p[0], p[1]), det_pairs))
    det_mismatch = 0
    for a, b in zip(results[len(pop_pairs):], again):
        if "timeout" in (a["kind"], b["kind"]):
            continue
        if a["kind"] != b["kind"] or (a["info"] or {}).get("order") != (b["info"] or {}).get("order"):
            det_mismatch += 1
    kinds = {}
    orders = set()
    overlapped = 0
    total_ops = 0
    for r in results:
        kinds[r["kind"]] = kinds.get(r["kind"], 0) + 1
        if r["info"]:
            total_ops += r["info"]["ops"]
            if r["info"]["overlap"]:
                overlapped += 1
                orders.add((r["scn_seed"], r["info"]["order"]))
    violations = []
    seen = set()
    harness = []
    # the cold-thread reference values of one scenario must be the same in every execution of it
    # (each execution is a separate process with a different interleaving of the first touches)
    by_scn = {}
    for r in results:
        if r["kind"] == "clean" and r["info"] and r["info"].get("refhash"):
            by_scn.setdefault(r["scn_seed"], {}).setdefault(r["info"]["refhash"], r)
    ref_groups = len(by_scn)
    ref_group_mismatch = 0
    for scn, d in by_scn.items():
        if len(d) > 1:
            ref_group_mismatch += 1
            a, b = list(d.values())[:2]
            a = dict(a)
            a["kind"] = "reference_differs_between_executions"
            a["detail"] = "cold-thread reference values of scenario %d differ between miri seeds %d and %d (REFHASH %s vs %s)" % (
                scn, a["miri_seed"], b["miri_seed"], a["info"]["refhash"], b["info"]["refhash"])
            a["other_seed"] = b["miri_seed"]
            results.append(a)
    for r in results:
        if r["kind"] in ("clean", "unsupported", "timeout"):
            continue
        if r["kind"] == "harness":
            harness.append("miri scn=%d seed=%d: %s" % (r["scn_seed"], r["miri_seed"], r["tail"][-300:]))
            continue
        if r["kind"] in seen or len(violations) >= 2:
            continue
        seen.add(r["kind"])
        if r["kind"] == "reference_differs_between_executions":
            path = os.path.join(replay_dir, "C13-M-%d-%d.json" % (r["scn_seed"], r["miri_seed"]))
            rep = dict(property="C13", engine="M", scenario_seed=r["scn_seed"], miri_seed=r["miri_seed"], other_miri_seed=r["other_seed"],
                       threads_mask=None, max_ops=None, miriflags=BASE_FLAGS, plan=list_plan(r["scn_seed"]),
                       violation=dict(kind=r["kind"], detail=r["detail"]), minimised=False)
            with open(path, "w") as f:
                json.dump(rep, f, indent=1)
            violations.append(dict(replay=path, line=r["detail"], minimised=False, replay_confirmed=True, steps_before=r["info"]["ops"], steps_after=r["info"]["ops"], shrink_evals=0))
            continue
        m = minimise(r, jobs)
        path = os.path.join(replay_dir, "C13-M-%d-%d.json" % (m["scn_seed"], m["miri_seed"]))
        confirm = run_one(m["scn_seed"], m["miri_seed"], m["threads_mask"], m["max_ops"], m.get("population"))
        rep = dict(property="C13", engine="M", scenario_seed=m["scn_seed"], miri_seed=m["miri_seed"], threads_mask=m["threads_mask"],
                   max_ops=m["max_ops"], population=m.get("population"), miriflags=BASE_FLAGS,
                   plan=list_plan(m["scn_seed"], m["threads_mask"], m["max_ops"], m.get("population"))[:40],
                   violation=dict(kind=m["kind"], detail=m["detail"]), minimised=True, shrink_evals=m.get("shrink_evals", 0))
        with open(path, "w") as f:
            json.dump(rep, f, indent=1)
        violations.append(dict(replay=path, line="%s under Miri: %s" % (m["kind"], m["detail"][:300]), minimised=True,
                               replay_confirmed=confirm["kind"] == m["kind"], steps_before=(r["info"] or {}).get("ops", 0),
                               steps_after=len(rep["plan"]), shrink_evals=m.get("shrink_evals", 0)))
    wall = time.time() - t0
    samples = []
    for r in results[:2]:
        samples.append(dict(engine="M", scenario_seed=r["scn_seed"], miri_seed=r["miri_seed"], plan=list_plan(r["scn_seed"]), outcome=r["kind"], event_order_hash=(r["info"] or {}).get("order")))
    run_wall = max(wall, 1e-9)
    summary = {
        "engine": "M (Miri: seeded instruction-level scheduler, weak-memory emulation, vector-clock data-race detector) over the real a5 code",
        "flags": BASE_FLAGS + ["-Zmiri-preemption-rate=<0.05|0.05|0.2|0.5 by miri seed mod 4>", "-Zmiri-seed=<per execution>"],
        "executions": len(results),
        "executions_per_hour": int(len(results) / run_wall * 3600),
        "scenario_seeds": n_scn,
        "population_profile_executions(threads alive at once)": {str(n): pops.count(n) for n in sorted(set(pops)) if n > 0},
        "big_input_profile_executions(cells per compact argument; oracle = data-race detector)": {str(min(5 * 4 ** (-n - 1), 9000) if QUICK_CAPS else 5 * 4 ** (-n - 1)): pops.count(n) for n in sorted(set(pops)) if -100 < n < 0},
        "big_input_profile_executions(vertices per boundary; oracle = data-race detector)": {str(8500 if QUICK_CAPS else 5 * (2048 if -n - 100 >= 7 else 2 ** (-n - 100 + 3))): pops.count(n) for n in sorted(set(pops)) if n <= -100},
        "miri_seeds_per_scenario": seeds_per_scenario,
        "outcomes": kinds,
        "executions_that_hit_the_wall_clock_cap(undecided, not counted as clean)": kinds.get("timeout", 0),
        "simulated_time": {"note": "no clock in the system; logical steps", "operations_executed": total_ops},
        "executions_with_overlapping_ops": overlapped,
        "distinct_interleavings(order of op start/end events, Relaxed ticket)": len(orders),
        "fault_kinds": {
            "preemption_at_basic_block_granularity(rate 0.05)": len(results),
            "weak_memory_emulation(store buffers)": len(results),
            "spurious_compare_exchange_weak_failure": len(results),
            "racing_first_touch_of_lazy_tables": len(results),
            "caller_thread_population_just_past_a_power_of_two(17..257 threads alive, none ordered by happens-before)": len(pop_pairs),
        },
        "determinism": {"pairs_run_twice": len(det_pairs), "mismatches": det_mismatch},
        "reference_value_groups(same scenario, different executions)": ref_groups,
        "reference_value_group_mismatches": ref_group_mismatch,
        "wall_s": round(wall, 2),
    }
    out = dict(executions=len(results), distinct_nontrivial=len(orders), summary=summary, violations=violations, samples=samples,
               harness_errors=harness, determinism_mismatch=det_mismatch)
    return out


def replay(path):
    with open(path) as f:
        rep = json.load(f)
    ok, out = prepare()
    if not ok:
        print("HARNESS-ERROR Miri build failed")
        print(out[-2000:])
        return 2
    r = run_one(rep["scenario_seed"], rep["miri_seed"], rep.get("threads_mask"), rep.get("max_ops"), rep.get("population"))
    if rep["violation"]["kind"] == "reference_differs_between_executions" and r["kind"] == "clean":
        r2 = run_one(rep["scenario_seed"], rep["other_miri_seed"])
        if r2["kind"] == "clean" and r["info"]["refhash"] != r2["info"]["refhash"]:
            print("VIOLATION property=C13 replay=%s" % path)
            print("  cold-thread reference values differ between miri seeds %d and %d: %s vs %s" % (rep["miri_seed"], rep["other_miri_seed"], r["info"]["refhash"], r2["info"]["refhash"]))
            return 1
    if r["kind"] == "clean":
        print("REPLAY clean: the recorded %s does not occur on the current tree" % rep["violation"]["kind"])
        return 0
    if r["kind"] in ("harness", "unsupported", "timeout"):
        print("REPLAY failed: %s" % r["tail"][-500:])
        return 2
    print("VIOLATION property=C13 replay=%s" % path)
    print("  %s under Miri (scenario seed %d, miri seed %d): %s" % (r["kind"], rep["scenario_seed"], rep["miri_seed"], r["detail"][:400]))
    return 1
