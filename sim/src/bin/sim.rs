use a5sim::batch::{batch_main, work_main, worlds_main, BatchArgs, WorkArgs, WorldArgs};
use a5sim::replay::{exec_file_fresh, exec_file_here, load};
use std::collections::HashMap;

fn args_map(args: &[String]) -> (Vec<String>, HashMap<String, String>) {
    let mut pos = Vec::new();
    let mut m = HashMap::new();
    let mut i = 0;
    while i < args.len() {
        if let Some(k) = args[i].strip_prefix("--") {
            if i + 1 < args.len() && !args[i + 1].starts_with("--") {
                m.insert(k.to_string(), args[i + 1].clone());
                i += 2;
            } else {
                m.insert(k.to_string(), "1".to_string());
                i += 1;
            }
        } else {
            pos.push(args[i].clone());
            i += 1;
        }
    }
    (pos, m)
}

fn get<T: std::str::FromStr>(m: &HashMap<String, String>, k: &str, d: T) -> T {
    m.get(k).and_then(|s| s.parse().ok()).unwrap_or(d)
}

fn main() {
    let argv: Vec<String> = std::env::args().skip(1).collect();
    if argv.is_empty() {
        eprintln!("usage: sim <ref|work|batch|exec-file|replay|pool> ...");
        std::process::exit(2);
    }
    let (mut pos, mut m) = args_map(&argv[1..]);
    // the process moves to a private working directory before it calls into the library:
    // make every path argument absolute first
    if let Ok(cwd) = std::env::current_dir() {
        let abs = |v: &mut String| {
            if !v.is_empty() && !v.starts_with('/') {
                *v = cwd.join(&*v).to_string_lossy().to_string();
            }
        };
        if matches!(argv[0].as_str(), "exec-file" | "replay" | "replay-chain") {
            pos.iter_mut().for_each(abs);
        }
        for k in ["pool", "refs", "out", "cand-dir", "known", "work-dir", "replay-dir"] {
            if let Some(v) = m.get_mut(k) {
                abs(v);
            }
        }
    }
    a5sim::procs::enter_private_tmp();
    match argv[0].as_str() {
        "ref" => a5sim::procs::ref_main(),
        "zygote" => a5sim::procs::zygote_main(get(&m, "cap-secs", 10u32)),
        "work" => {
            let a = WorkArgs {
                pool_path: get(&m, "pool", String::new()),
                refs_path: get(&m, "refs", String::new()),
                verif_seed: get(&m, "seed", 0u64),
                from: get(&m, "from", 0u64),
                to: get(&m, "to", 0u64),
                out_path: get(&m, "out", String::new()),
                cand_dir: get(&m, "cand-dir", ".".to_string()),
                known_path: get(&m, "known", String::new()),
                no_yield: m.contains_key("no-yield"),
                log_every: get(&m, "log-every", 0u64),
                tag: get(&m, "tag", "w".to_string()),
                hash_every: get(&m, "hash-every", 16u64),
            };
            work_main(&a);
        }
        "batch" => {
            let b = BatchArgs {
                verif_seed: get(&m, "seed", 0u64),
                scenarios: get(&m, "scenarios", 1000u64),
                pool_size: get(&m, "pool-size", 4000usize),
                workers: get(&m, "workers", 16usize),
                work_dir: get(&m, "work-dir", "/verif/work/h".to_string()),
                replay_dir: get(&m, "replay-dir", "/verif/replays".to_string()),
                known_path: get(&m, "known", "/verif/known_findings.json".to_string()),
                out_path: get(&m, "out", String::new()),
                determinism_sample: get(&m, "determinism-sample", 0u64),
                tag: get(&m, "tag", "h".to_string()),
                no_yield: m.contains_key("no-yield"),
                hash_every: get(&m, "hash-every", 16u64),
            };
            let out = batch_main(&b);
            println!(
                "BATCH engine=H profile={} seed={} scenarios={} ops={} sched_points={} switches={} violations={} known={:?} determinism={}/{} harness_errors={} wall={:.1}s",
                out.profile, out.verif_seed, out.scenarios, out.stats.ops, out.stats.sched_points, out.stats.switches,
                out.violations.len(), out.known_hits, out.determinism_checked - out.determinism_mismatch, out.determinism_checked,
                out.harness_errors.len(), out.wall_s
            );
            for v in &out.violations {
                println!("VIOLATION property=C13 replay={}", v.replay);
                println!("  {} (minimised={} confirmed={} ops {} -> {})", v.line, v.minimised, v.replay_confirmed, v.steps_before, v.steps_after);
            }
            for e in &out.harness_errors {
                println!("HARNESS-ERROR {}", e);
            }
        }
        "worlds" => {
            let b = WorldArgs {
                verif_seed: get(&m, "seed", 0u64),
                worlds: get(&m, "worlds", 72u64),
                pool_size: get(&m, "pool-size", 1500usize),
                workers: get(&m, "workers", 16usize),
                work_dir: get(&m, "work-dir", "/verif/work/w".to_string()),
                replay_dir: get(&m, "replay-dir", "/verif/replays".to_string()),
                known_path: get(&m, "known", "/verif/known_findings.json".to_string()),
                out_path: get(&m, "out", String::new()),
            };
            let out = worlds_main(&b);
            println!(
                "BATCH engine=W profile={} worlds={} orders_covered={}/24 ops={} violations={} known={:?} cross_world_groups={} log_mismatch={} harness_errors={} wall={:.1}s",
                out.profile, out.worlds, out.orders_covered, out.stats.ops, out.violations.len(), out.known_hits,
                out.cross_world_groups, out.cross_world_log_mismatch, out.harness_errors.len(), out.wall_s
            );
            for v in &out.violations {
                println!("VIOLATION property=C13 replay={}", v.replay);
                println!("  {} (minimised={} confirmed={} ops {} -> {})", v.line, v.minimised, v.replay_confirmed, v.steps_before, v.steps_after);
            }
            for e in &out.harness_errors {
                println!("HARNESS-ERROR {}", e);
            }
        }
        "exec-file" => {
            let f = load(&pos[0]).unwrap_or_else(|e| {
                eprintln!("{}", e);
                std::process::exit(2)
            });
            let mode = get(&m, "mode", "strict".to_string());
            let o = exec_file_here(&f, &mode, m.contains_key("trace"));
            if m.contains_key("trace") {
                for l in &o.trace {
                    println!("{}", l);
                }
            }
            println!("EXECOUT {}", serde_json::to_string(&o).unwrap());
        }
        "replay" => {
            // re-derive the references on the CURRENT tree, then re-execute strictly in a fresh process
            let path = &pos[0];
            let mut f = load(path).unwrap_or_else(|e| {
                eprintln!("{}", e);
                std::process::exit(2)
            });
            let mut changed_refs = 0;
            for sc in f.scenarios.iter_mut() {
                for i in 0..sc.ops.len() {
                    let r = a5sim::procs::pristine_ref(&sc.ops[i]);
                    match (r.status.as_str(), r.outcome) {
                        ("ok", Some(o)) => {
                            if o != sc.expected[i] {
                                changed_refs += 1;
                                sc.expected[i] = o;
                            }
                        }
                        (st, _) => {
                            println!("REPLAY reference of op {} has no cold result now ({}): {}", i, st, sc.ops[i].describe());
                            std::process::exit(2);
                        }
                    }
                }
            }
            let tmp = format!("{}.replaying", path);
            a5sim::replay::save(&tmp, &f);
            let r = exec_file_fresh(&tmp, "strict");
            let _ = std::fs::remove_file(&tmp);
            match r {
                Ok(o) => {
                    if let Some(e) = &o.harness_error {
                        println!("REPLAY diverged: {}", e);
                        std::process::exit(2);
                    }
                    match (&o.violation, &f.violation) {
                        (Some(v), Some(t)) if v.invariant == t.invariant && v.op.reference_form() == t.op.reference_form() => {
                            println!("VIOLATION property=C13 replay={}", path);
                            println!("  {}", v.line());
                            println!("  (references re-derived on the current tree; {} changed)", changed_refs);
                            std::process::exit(1);
                        }
                        (Some(v), _) => {
                            println!("VIOLATION property=C13 replay={}", path);
                            println!("  different violation than recorded: {}", v.line());
                            std::process::exit(1);
                        }
                        (None, _) => {
                            println!(
                                "REPLAY clean: the recorded violation does not occur on the current tree ({} references changed{})",
                                changed_refs,
                                if o.schedule_exhausted { "; the run was followed to the end of the recorded schedule" } else { "" }
                            );
                        }
                    }
                }
                Err(e) => {
                    println!("REPLAY failed: {}", e);
                    std::process::exit(2);
                }
            }
        }
        "replay-chain" => {
            let txt = std::fs::read_to_string(&pos[0]).expect("chain file");
            let c: a5sim::batch::ChainFile = serde_json::from_str(&txt).expect("chain json");
            let wd = get(&m, "work-dir", "/verif/work/chainreplay".to_string());
            std::fs::create_dir_all(&wd).ok();
            match a5sim::batch::run_chain(&c, &wd) {
                Some((i, v)) => {
                    println!("VIOLATION property=C13 replay={}", pos[0]);
                    println!("  world {} of the chain: {}", c.first_world + i as u64, v.line());
                    std::process::exit(1);
                }
                None => println!("REPLAY clean: no world of the chain violates on the current tree"),
            }
        }
        "gen" => {
            // write the scenario with batch index --index as a replay file (debugging aid)
            let pool: a5sim::pool::Pool = serde_json::from_str(&std::fs::read_to_string(get(&m, "pool", String::new())).expect("pool")).expect("pool json");
            let refs: Vec<a5sim::scenario::RefEntry> = serde_json::from_str(&std::fs::read_to_string(get(&m, "refs", String::new())).expect("refs")).expect("refs json");
            let g = a5sim::scenario::GenCtx::new(&pool, &refs);
            let vs = get(&m, "seed", 0u64);
            let sc = a5sim::scenario::generate_at(&g, a5sim::batch::scenario_seed(vs, get(&m, "index", 0u64)), Some(get(&m, "index", 0u64)));
            let f = a5sim::replay::ReplayFile {
                property: "C13".into(), engine: "H".into(), verif_seed: vs, profile: a5sim::replay::profile_name(),
                decisions: vec![Vec::new()], scenarios: vec![sc], violation: None, minimised: false, note: "generated".into(), origin: None,
            };
            a5sim::replay::save(&get(&m, "out", "/tmp/gen.json".to_string()), &f);
        }
        "pool" => {
            let p = a5sim::pool::build(get(&m, "seed", 0u64), get(&m, "size", 4000usize));
            let mut kinds: std::collections::BTreeMap<&str, usize> = Default::default();
            for o in &p.ops {
                *kinds.entry(o.op.kind()).or_insert(0) += 1;
            }
            println!("pool ops={} poison={}", p.ops.len(), p.ops.iter().filter(|o| o.poison.is_some()).count());
            for (k, v) in kinds {
                println!("  {:28} {}", k, v);
            }
        }
        other => {
            eprintln!("unknown subcommand {}", other);
            std::process::exit(2);
        }
    }
}
