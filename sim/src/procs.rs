//! Child processes: pristine-process references (one op = the first library call of a fresh
//! process, under an address-space limit and a wall-clock cap), and fresh-process execution of
//! scenario files. The reference runner doubles as the sandbox that screens the pool.

use crate::ops::{exec, Env, Op, Outcome, Target};
use crate::scenario::{Foot, RefEntry};
use a5::projections::DodecahedronProjection;
use std::io::{BufRead, Read, Write};
use std::process::{Child, Command, Stdio};
use std::sync::atomic::{AtomicUsize, Ordering};
use std::sync::{Arc, Mutex};
use std::time::{Duration, Instant};

pub const MAX_RESULT_WORDS: usize = 2 * 65536 + 16; // 4^8 cells (or lon/lat pairs)

pub fn self_exe() -> String {
    std::env::current_exe().expect("current_exe").to_string_lossy().to_string()
}

/// `sim ref`: read ops (one JSON per line) from stdin, execute each as it comes, print one
/// RefEntry JSON per line. In pristine mode the parent sends exactly one line.
pub fn ref_main() {
    crate::ops::quiet_panics();
    let stdin = std::io::stdin();
    let env = Env::new(3, 2);
    for line in stdin.lock().lines() {
        let line = match line {
            Ok(l) => l,
            Err(_) => break,
        };
        if line.trim().is_empty() {
            continue;
        }
        let op: Op = match serde_json::from_str(&line) {
            Ok(o) => o,
            Err(e) => {
                println!("{{\"status\":\"bad_op\",\"outcome\":null,\"foot\":{{\"face\":0,\"sph\":[0,0,0,0]}},\"us\":0,\"err\":{:?}}}", e.to_string());
                continue;
            }
        };
        let t0 = Instant::now();
        let outcome = exec(&op.reference_form(), &env);
        let us = t0.elapsed().as_micros() as u64;
        // footprint: which memo slots does this op fill when it starts cold?
        let foot = match &op {
            Op::Forward { .. } | Op::Inverse { .. } => {
                // run again on a brand-new explicit instance and look at it
                let ienv = Env::new(1, 0);
                if let Some(o2) = op.with_target(Target::Inst(0)) {
                    let _ = exec(&o2, &ienv);
                }
                let g = ienv.insts[0].lock().unwrap();
                match g.as_ref() {
                    Some(p) => Foot::from_view(&p.verif_memo_view()),
                    None => Foot::default(),
                }
            }
            o if o.uses_tl() => Foot::from_view(&DodecahedronProjection::verif_thread_memo_view()),
            _ => Foot::default(),
        };
        let (status, outcome) = match &outcome {
            Outcome::Ok(v) if v.len() > MAX_RESULT_WORDS => ("too_big", None),
            _ => ("ok", Some(outcome)),
        };
        let e = RefEntry { status: status.into(), outcome, foot, us };
        let mut out = std::io::stdout().lock();
        let _ = writeln!(out, "{}", serde_json::to_string(&e).unwrap());
        let _ = out.flush();
    }
}

fn spawn_limited(args: &[&str], vmem_kb: u64) -> std::io::Result<Child> {
    let exe = self_exe();
    let script = format!("ulimit -v {}; exec \"$0\" \"$@\"", vmem_kb);
    Command::new("sh")
        .arg("-c")
        .arg(script)
        .arg(exe)
        .args(args)
        .stdin(Stdio::piped())
        .stdout(Stdio::piped())
        .stderr(Stdio::null())
        .spawn()
}

/// Run a child to completion with a wall-clock cap; returns (exit status or None if killed, stdout).
/// Status: Some(code) = exited, None = killed by a signal; -1 = killed by our wall-clock cap.
pub fn run_child(args: &[&str], input: &str, timeout: Duration, vmem_kb: u64) -> (Option<i32>, String) {
    let mut child = match spawn_limited(args, vmem_kb) {
        Ok(c) => c,
        Err(e) => return (None, format!("spawn failed: {}", e)),
    };
    if let Some(mut si) = child.stdin.take() {
        let _ = si.write_all(input.as_bytes());
    }
    let mut so = child.stdout.take().unwrap();
    let reader = std::thread::spawn(move || {
        let mut s = String::new();
        let _ = so.read_to_string(&mut s);
        s
    });
    let t0 = Instant::now();
    let mut status = None;
    loop {
        match child.try_wait() {
            Ok(Some(st)) => {
                status = st.code();
                break;
            }
            Ok(None) => {
                if t0.elapsed() > timeout {
                    let _ = child.kill();
                    let _ = child.wait();
                    let out = reader.join().unwrap_or_default();
                    return (Some(-1), out);
                }
                std::thread::sleep(Duration::from_micros(300));
            }
            Err(_) => break,
        }
    }
    let out = reader.join().unwrap_or_default();
    (status, out)
}

pub const REF_TIMEOUT: Duration = Duration::from_secs(10);
pub const REF_VMEM_KB: u64 = 1_500_000;

/// Pristine-process reference of one op.
pub fn pristine_ref(op: &Op) -> RefEntry {
    let line = format!("{}\n", op.key());
    let (status, out) = run_child(&["ref"], &line, REF_TIMEOUT, REF_VMEM_KB);
    if let Some(l) = out.lines().next() {
        if let Ok(e) = serde_json::from_str::<RefEntry>(l) {
            return e;
        }
    }
    let st = match status {
        Some(-1) => "timeout",
        _ => "abort",
    };
    RefEntry { status: st.into(), outcome: None, foot: Foot::default(), us: 0 }
}

/// Pristine references for many ops, `jobs` children at a time. Order of results = order of ops.
pub fn pristine_refs(ops: &[Op], jobs: usize) -> Vec<RefEntry> {
    let next = Arc::new(AtomicUsize::new(0));
    let results: Arc<Mutex<Vec<Option<RefEntry>>>> = Arc::new(Mutex::new(vec![None; ops.len()]));
    let ops = Arc::new(ops.to_vec());
    let mut hs = Vec::new();
    for _ in 0..jobs.max(1) {
        let next = next.clone();
        let results = results.clone();
        let ops = ops.clone();
        hs.push(std::thread::spawn(move || loop {
            let i = next.fetch_add(1, Ordering::Relaxed);
            if i >= ops.len() {
                break;
            }
            let e = pristine_ref(&ops[i]);
            results.lock().unwrap()[i] = Some(e);
        }));
    }
    for h in hs {
        let _ = h.join();
    }
    let r = results.lock().unwrap();
    r.iter().map(|e| e.clone().unwrap()).collect()
}
