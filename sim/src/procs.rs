//! Child processes: pristine-process references (one op = the first library call of a fresh
//! process, under an address-space limit and a wall-clock cap), and fresh-process execution of
//! scenario files. The reference runner doubles as the sandbox that screens the pool.

use crate::ops::{exec, Env, Op, Outcome, Target};
use crate::scenario::{Foot, RefEntry};
use a5::projections::DodecahedronProjection;
use std::io::{BufRead, Read, Write};
use std::process::{Child, Command, Stdio};
use std::sync::atomic::{AtomicUsize, Ordering};
use std::sync::Mutex;
use std::time::{Duration, Instant};

pub const MAX_RESULT_WORDS: usize = (1 << 20) + 16; // 4^10 words: a few deliberately big results (4^9 cells) are in the pool

pub fn self_exe() -> String {
    std::env::current_exe().expect("current_exe").to_string_lossy().to_string()
}

fn ref_entry_for(op: &Op) -> RefEntry {
    let env = Env::new(3, 2);
    let t0 = Instant::now();
    let outcome = exec(&op.reference_form(), &env);
    let us = t0.elapsed().as_micros() as u64;
    // footprint: which memo slots does this op fill when it starts cold?
    let foot = match op {
        Op::Forward { .. } | Op::Inverse { .. } => {
            // run again on a brand-new explicit instance and look at it
            let ienv = Env::new(1, 0);
            if let Some(o2) = op.with_target(Target::Inst(0)) {
                let _ = exec(&o2, &ienv);
            }
            let g = ienv.insts[0].lock().unwrap();
            match g.as_ref() {
                Some(p) => Foot::from_view(&p.verif_memo_view()),
                None => Foot::default(),
            }
        }
        o if o.uses_tl() => std::panic::catch_unwind(|| Foot::from_view(&DodecahedronProjection::verif_thread_memo_view())).unwrap_or_default(),
        _ => Foot::default(),
    };
    let (status, outcome) = match &outcome {
        Outcome::Ok(v) if v.len() > MAX_RESULT_WORDS => ("too_big", None),
        _ => ("ok", Some(outcome)),
    };
    RefEntry { status: status.into(), outcome, foot, us }
}

fn bad_entry(status: &str) -> RefEntry {
    RefEntry { status: status.into(), outcome: None, foot: Foot::default(), us: 0 }
}

/// `sim ref`: read ops (one JSON per line) from stdin, execute each as it comes IN THIS PROCESS,
/// print one RefEntry JSON per line. Pristine only for the first line.
pub fn ref_main() {
    crate::ops::quiet_panics();
    let stdin = std::io::stdin();
    for line in stdin.lock().lines() {
        let line = match line {
            Ok(l) => l,
            Err(_) => break,
        };
        if line.trim().is_empty() {
            continue;
        }
        let e = match serde_json::from_str::<Op>(&line) {
            Ok(op) => ref_entry_for(&op),
            Err(_) => bad_entry("bad_op"),
        };
        let mut out = std::io::stdout().lock();
        let _ = writeln!(out, "{}", serde_json::to_string(&e).unwrap());
        let _ = out.flush();
    }
}

extern "C" {
    fn atexit(f: extern "C" fn()) -> i32;
}

static PRIVATE_TMP: Mutex<Option<String>> = Mutex::new(None);

extern "C" fn remove_private_tmp() {
    if let Ok(g) = PRIVATE_TMP.lock() {
        if let Some(d) = g.as_ref() {
            let _ = std::fs::remove_dir_all(d);
        }
    }
}

/// Give this process a temp directory of its own (a fresh, empty sub-directory of the ambient
/// one, removed again at exit) before it calls into the library: whatever a changed library
/// persists under `temp_dir()` then stays inside this process's history and can neither leak
/// into another worker, another run, nor into the machine's /tmp. Not done for the worlds of a
/// chain (A5SIM_SHARED_TMP): sharing one directory is what makes them a chain.
pub fn enter_private_tmp() {
    if std::env::var_os("A5SIM_SHARED_TMP").is_some() {
        // a world of a chain: the chain's directory is also where relative paths land
        let root = std::env::var("A5SIM_FS_ROOT").map(std::path::PathBuf::from).unwrap_or_else(|_| std::env::temp_dir());
        let cwd = root.join("cwd");
        if std::fs::create_dir_all(&cwd).is_ok() {
            let _ = std::env::set_current_dir(&cwd);
        }
        private_mounts(&root);
        return;
    }
    let d = std::env::temp_dir().join(format!("a5sim-{}", std::process::id()));
    let _ = std::fs::remove_dir_all(&d);
    if std::fs::create_dir_all(&d).is_ok() {
        let ds = d.to_string_lossy().to_string();
        std::env::set_var("TMPDIR", &ds);
        // the same private place for anything derived from the home / cache directory
        let _ = std::fs::create_dir_all(d.join("home/.cache"));
        std::env::set_var("HOME", format!("{}/home", ds));
        std::env::set_var("XDG_CACHE_HOME", format!("{}/home/.cache", ds));
        // the shim injects write-path faults only on files under this directory
        std::env::set_var("A5SIM_FS_ROOT", &ds);
        // relative paths land there too
        if std::fs::create_dir_all(d.join("cwd")).is_ok() {
            let _ = std::env::set_current_dir(d.join("cwd"));
        }
        *PRIVATE_TMP.lock().unwrap() = Some(ds);
        unsafe { atexit(remove_private_tmp) };
        private_mounts(&d);
    }
}

extern "C" {
    fn unshare(flags: i32) -> i32;
    fn mount(src: *const u8, target: *const u8, fstype: *const u8, flags: u64, data: *const u8) -> i32;
}

static PRIVATE_MOUNTS: std::sync::atomic::AtomicBool = std::sync::atomic::AtomicBool::new(false);

/// Are hard-coded shared locations (/dev/shm, /var/tmp, /tmp) private to this process?
pub fn has_private_mounts() -> bool {
    PRIVATE_MOUNTS.load(Ordering::Relaxed)
}

/// Best effort, needs CAP_SYS_ADMIN: give the process a mount namespace of its own in which
/// /dev/shm, /var/tmp and (if nothing the process needs lives there) /tmp are sub-directories of
/// its private directory. A changed library that persists something under a HARD-CODED shared
/// path then meets the same isolation - and, in a cold-world chain, the same sharing and the
/// same disk faults - as one that asks for temp_dir() or the home directory. Without the
/// privilege nothing happens (evidence says which).
fn private_mounts(root: &std::path::Path) {
    if std::env::var_os("A5SIM_NO_NAMESPACE").is_some() {
        return;
    }
    let c = |s: &str| std::ffi::CString::new(s).unwrap();
    if unsafe { unshare(0x0002_0000) } != 0 {
        return;
    }
    // nothing mounted here may propagate back to the machine's namespace
    let slash = c("/");
    if unsafe { mount(std::ptr::null(), slash.as_ptr() as *const u8, std::ptr::null(), 0x4000 | 0x4_0000, std::ptr::null()) } != 0 {
        return;
    }
    let under_tmp = |p: &str| p == "/tmp" || p.starts_with("/tmp/");
    let mut needs_tmp = under_tmp(&root.to_string_lossy()) || under_tmp(&self_exe());
    for a in std::env::args() {
        needs_tmp |= under_tmp(&a);
    }
    for k in ["A5SIM_FS_LOG", "LD_PRELOAD", "TMPDIR", "VERIF_WORK"] {
        if let Ok(v) = std::env::var(k) {
            needs_tmp |= under_tmp(&v);
        }
    }
    let mut also: Vec<&str> = Vec::new();
    for (sub, target) in [("shm", "/dev/shm"), ("vartmp", "/var/tmp"), ("roottmp", "/tmp")] {
        if target == "/tmp" && needs_tmp {
            continue;
        }
        let src = root.join(sub);
        if std::fs::create_dir_all(&src).is_err() || !std::path::Path::new(target).is_dir() {
            continue;
        }
        let (s, t) = (c(&src.to_string_lossy()), c(target));
        if unsafe { mount(s.as_ptr() as *const u8, t.as_ptr() as *const u8, std::ptr::null(), 0x1000, std::ptr::null()) } == 0 {
            also.push(target);
            PRIVATE_MOUNTS.store(true, Ordering::Relaxed);
        }
    }
    // the shim's write-path faults cover these locations as well
    std::env::set_var("A5SIM_FS_ALSO", also.join(":"));
}

/// Sub-directories of the private directory that stay in place (the process's home and working
/// directory, and the sources of the bind mounts over /dev/shm, /var/tmp and /tmp).
const KEPT_DIRS: [&str; 5] = ["home", "cwd", "shm", "vartmp", "roottmp"];

fn empty_dir(p: &std::path::Path, n: &mut u64) {
    if let Ok(inner) = std::fs::read_dir(p) {
        for x in inner.flatten() {
            *n += 1;
            let q = x.path();
            if x.file_type().map(|t| t.is_dir()).unwrap_or(false) {
                let _ = std::fs::remove_dir_all(&q);
            } else {
                let _ = std::fs::remove_file(&q);
            }
        }
    }
}

/// Empty the private temp directory (the zygote does this after every child, so that each
/// reference child starts with an empty disk as well as an untouched process image). Returns
/// the number of entries removed.
pub fn wipe_private_tmp() -> u64 {
    let mut n = 0;
    if let Ok(g) = PRIVATE_TMP.lock() {
        if let Some(d) = g.as_ref() {
            if let Ok(rd) = std::fs::read_dir(d) {
                for e in rd.flatten() {
                    let p = e.path();
                    let kept = p.file_name().and_then(|f| f.to_str()).map(|f| KEPT_DIRS.contains(&f)).unwrap_or(false);
                    if p.is_dir() && kept {
                        if p.file_name().map(|f| f == "home").unwrap_or(false) && dir_is_bare_home(&p) {
                            continue;
                        }
                        empty_dir(&p, &mut n);
                    } else if p.is_dir() {
                        n += 1;
                        let _ = std::fs::remove_dir_all(&p);
                    } else {
                        n += 1;
                        let _ = std::fs::remove_file(&p);
                    }
                }
            }
            let _ = std::fs::create_dir_all(format!("{}/home/.cache", d));
        }
    }
    n
}

/// `home/` with nothing but an empty `.cache/` in it
fn dir_is_bare_home(p: &std::path::Path) -> bool {
    let mut entries = match std::fs::read_dir(p) {
        Ok(r) => r.flatten().collect::<Vec<_>>(),
        Err(_) => return false,
    };
    if entries.len() != 1 {
        return entries.is_empty();
    }
    let e = entries.pop().unwrap();
    e.file_name() == ".cache" && std::fs::read_dir(e.path()).map(|mut r| r.next().is_none()).unwrap_or(false)
}

fn files_under(dir: &std::path::Path, out: &mut Vec<String>, depth: u32) {
    if depth > 6 {
        return;
    }
    if let Ok(rd) = std::fs::read_dir(dir) {
        for e in rd.flatten() {
            let p = e.path();
            match e.file_type() {
                Ok(t) if t.is_dir() => files_under(&p, out, depth + 1),
                Ok(t) if t.is_file() => out.push(p.to_string_lossy().to_string()),
                _ => {}
            }
        }
    }
}

pub fn files_under_pub(dir: &std::path::Path, out: &mut Vec<String>) {
    files_under(dir, out, 0);
}

/// Regular files under the temp directory this process gives the library (sorted).
pub fn library_files() -> Vec<String> {
    let mut v = Vec::new();
    let root = match std::env::var("A5SIM_FS_ROOT") {
        Ok(r) if !r.is_empty() => r,
        _ => return v,
    };
    files_under(std::path::Path::new(&root), &mut v, 0);
    v.sort();
    v
}

/// Seeded damage to one file (what a crash at an arbitrary point of a write, or a bad sector,
/// leaves behind). Returns the fault kind.
pub fn damage_file(p: &str, rng: &mut crate::rng::Rng) -> &'static str {
    let len = std::fs::metadata(p).map(|m| m.len()).unwrap_or(0);
    match rng.below(4) {
        0 => {
            // torn write: the file ends somewhere in the middle
            if len > 1 {
                if let Ok(fh) = std::fs::OpenOptions::new().write(true).open(p) {
                    let _ = fh.set_len(1 + rng.below(len - 1));
                }
            }
            "fs_torn_write"
        }
        1 => {
            let _ = std::fs::remove_file(p);
            "fs_lost_write"
        }
        2 => {
            // the tail never reached the disk: right length, zeros at the end
            if let Ok(mut bytes) = std::fs::read(p) {
                let n = bytes.len();
                let k = (1 + rng.below(n.max(1) as u64)) as usize;
                for x in bytes[n - k.min(n)..].iter_mut() {
                    *x = 0;
                }
                let _ = std::fs::write(p, bytes);
            }
            "fs_zeroed_tail"
        }
        _ => {
            if let Ok(mut bytes) = std::fs::read(p) {
                if !bytes.is_empty() {
                    let i = rng.below(bytes.len() as u64) as usize;
                    bytes[i] ^= 1 << rng.below(8);
                    let _ = std::fs::write(p, bytes);
                }
            }
            "fs_bit_flip"
        }
    }
}

/// Fault kind `disk_fault` of the history simulator: damage one of the files the library has
/// left under this process's temp directory. None if there is no such file.
pub fn damage_private_tmp(seed: u64) -> Option<&'static str> {
    let files = library_files();
    if files.is_empty() {
        return None;
    }
    let mut rng = crate::rng::Rng::new(seed);
    let p = rng.pick(&files).clone();
    Some(damage_file(&p, &mut rng))
}

/// Seed of the shim's write-path faults for what follows (0 = none); restarts its call counter.
pub fn fs_fault_set(seed: u64) -> bool {
    let f = unsafe { dlsym(std::ptr::null_mut(), b"a5sim_fs_fault_set\0".as_ptr()) };
    if f.is_null() {
        return false;
    }
    let set: extern "C" fn(u64) = unsafe { std::mem::transmute(f) };
    set(seed);
    true
}

pub fn fs_faults_fired() -> u64 {
    let f = unsafe { dlsym(std::ptr::null_mut(), b"a5sim_fs_faults_fired\0".as_ptr()) };
    if f.is_null() {
        return 0;
    }
    let get: extern "C" fn() -> u64 = unsafe { std::mem::transmute(f) };
    get()
}

extern "C" {
    fn fork() -> i32;
    fn waitpid(pid: i32, status: *mut i32, options: i32) -> i32;
    fn alarm(seconds: u32) -> u32;
    fn _exit(code: i32) -> !;
}

/// `sim zygote`: a process that never calls into a5 itself. For every op line on stdin it forks;
/// the child (a copy of the untouched process image: cold thread-locals, cold lazy tables) runs
/// the op as its first library call, prints the RefEntry and exits. A child that aborts, is
/// killed by the address-space limit or exceeds the wall-clock cap yields a status line
/// instead. One line out per line in.
pub fn zygote_main(cap_secs: u32) {
    crate::ops::quiet_panics();
    let stdin = std::io::stdin();
    let mut line = String::new();
    loop {
        line.clear();
        match stdin.lock().read_line(&mut line) {
            Ok(0) | Err(_) => break,
            Ok(_) => {}
        }
        if line.trim().is_empty() {
            continue;
        }
        let _ = std::io::stdout().flush();
        let pid = unsafe { fork() };
        if pid == 0 {
            unsafe { alarm(cap_secs) };
            let e = match serde_json::from_str::<Op>(&line) {
                Ok(op) => ref_entry_for(&op),
                Err(_) => bad_entry("bad_op"),
            };
            {
                let mut out = std::io::stdout().lock();
                let _ = writeln!(out, "{}", serde_json::to_string(&e).unwrap());
                let _ = out.flush();
            }
            unsafe { _exit(0) };
        } else if pid < 0 {
            println!("{}", serde_json::to_string(&bad_entry("fork_failed")).unwrap());
        } else {
            let mut status: i32 = 0;
            unsafe { waitpid(pid, &mut status, 0) };
            wipe_private_tmp();
            let exited_ok = (status & 0x7f) == 0 && ((status >> 8) & 0xff) == 0;
            if !exited_ok {
                let sig = status & 0x7f;
                let st = if sig == 14 { "timeout" } else { "abort" };
                println!("{}", serde_json::to_string(&bad_entry(st)).unwrap());
            }
        }
        let _ = std::io::stdout().flush();
    }
}

/// Path of the clock shim (built next to the binary by the driver), if present.
pub fn clock_shim() -> Option<String> {
    let exe = std::env::current_exe().ok()?;
    let p = exe.parent()?.join("libfakeclock.so");
    if p.exists() {
        Some(p.to_string_lossy().to_string())
    } else {
        None
    }
}

extern "C" {
    fn dlsym(handle: *mut u8, name: *const u8) -> *mut u8;
    fn clock_gettime(id: i32, ts: *mut [i64; 2]) -> i32;
}

/// Advance the simulated clocks of this process by `ns` (no-op without the shim). Returns whether
/// the shim was there.
pub fn clock_advance(ns: i64) -> bool {
    let f = unsafe { dlsym(std::ptr::null_mut(), b"a5sim_clock_advance\0".as_ptr()) };
    if f.is_null() {
        return false;
    }
    let adv: extern "C" fn(i64) = unsafe { std::mem::transmute(f) };
    adv(ns);
    true
}

extern "C" {
    fn nanosleep(req: *const [i64; 2], rem: *mut [i64; 2]) -> i32;
}

/// Relative sleep that the clock shim cannot distort. (std's park_timeout / Condvar::wait_timeout
/// compute an ABSOLUTE deadline from CLOCK_MONOTONIC; after a simulated clock jump of 30 days
/// they would sleep for 30 days.)
pub fn raw_sleep_us(us: u64) {
    let req = [(us / 1_000_000) as i64, ((us % 1_000_000) * 1000) as i64];
    unsafe { nanosleep(&req, std::ptr::null_mut()) };
}

/// Real elapsed time source for the simulator's own watchdog: CLOCK_MONOTONIC_RAW, which the
/// shim never touches.
pub fn raw_now_ns() -> i64 {
    let mut ts = [0i64; 2];
    unsafe { clock_gettime(4, &mut ts) };
    ts[0] * 1_000_000_000 + ts[1]
}

thread_local! {
    /// extra environment for children spawned by this thread (the minimiser shortens the
    /// stall timeout of its candidate runs when it chases an operation that never returns)
    pub static CHILD_ENV: std::cell::RefCell<Vec<(String, String)>> = const { std::cell::RefCell::new(Vec::new()) };
}

/// Environment given to every child this process spawns (the per-thread CHILD_ENV is applied on top).
pub static GLOBAL_CHILD_ENV: Mutex<Vec<(String, String)>> = Mutex::new(Vec::new());

pub fn set_global_child_env(v: Vec<(String, String)>) {
    *GLOBAL_CHILD_ENV.lock().unwrap_or_else(|e| e.into_inner()) = v;
}

fn spawn_limited(args: &[&str], vmem_kb: u64) -> std::io::Result<Child> {
    let exe = self_exe();
    let script = format!("ulimit -v {}; exec \"$0\" \"$@\"", vmem_kb);
    let mut extra: Vec<(String, String)> = GLOBAL_CHILD_ENV.lock().unwrap_or_else(|e| e.into_inner()).clone();
    extra.extend(CHILD_ENV.with(|e| e.borrow().clone()));
    if let Some(shim) = clock_shim() {
        extra.push(("LD_PRELOAD".into(), shim));
    }
    Command::new("sh")
        .envs(extra)
        .arg("-c")
        .arg(script)
        .arg(exe)
        .args(args)
        .stdin(Stdio::piped())
        .stdout(Stdio::piped())
        .stderr(Stdio::null())
        .spawn()
}

/// Run a child to completion with a wall-clock cap; returns (exit status or None if killed, stdout).
/// Status: Some(code) = exited, None = killed by a signal; -1 = killed by our wall-clock cap.
pub fn run_child(args: &[&str], input: &str, timeout: Duration, vmem_kb: u64) -> (Option<i32>, String) {
    let mut child = match spawn_limited(args, vmem_kb) {
        Ok(c) => c,
        Err(e) => return (None, format!("spawn failed: {}", e)),
    };
    if let Some(mut si) = child.stdin.take() {
        let _ = si.write_all(input.as_bytes());
    }
    let mut so = child.stdout.take().unwrap();
    let reader = std::thread::spawn(move || {
        let mut s = String::new();
        let _ = so.read_to_string(&mut s);
        s
    });
    let t0 = Instant::now();
    let mut status = None;
    loop {
        match child.try_wait() {
            Ok(Some(st)) => {
                status = st.code();
                break;
            }
            Ok(None) => {
                if t0.elapsed() > timeout {
                    let _ = child.kill();
                    let _ = child.wait();
                    let out = reader.join().unwrap_or_default();
                    return (Some(-1), out);
                }
                std::thread::sleep(Duration::from_micros(300));
            }
            Err(_) => break,
        }
    }
    let out = reader.join().unwrap_or_default();
    (status, out)
}

pub const REF_TIMEOUT: Duration = Duration::from_secs(10);
pub const REF_VMEM_KB: u64 = 300_000;

/// Pristine-process reference of one op.
pub fn pristine_ref(op: &Op) -> RefEntry {
    let line = format!("{}\n", op.key());
    let (status, out) = run_child(&["ref"], &line, REF_TIMEOUT, REF_VMEM_KB);
    if let Some(l) = out.lines().next() {
        if let Ok(e) = serde_json::from_str::<RefEntry>(l) {
            return e;
        }
    }
    let st = match status {
        Some(-1) => "timeout",
        _ => "abort",
    };
    RefEntry { status: st.into(), outcome: None, foot: Foot::default(), us: 0 }
}

struct Zygote {
    child: Child,
    stdin: std::process::ChildStdin,
    stdout: std::io::BufReader<std::process::ChildStdout>,
}

impl Zygote {
    fn start() -> Option<Zygote> {
        let mut child = spawn_limited(&["zygote"], REF_VMEM_KB).ok()?;
        let stdin = child.stdin.take()?;
        let stdout = std::io::BufReader::new(child.stdout.take()?);
        Some(Zygote { child, stdin, stdout })
    }
    fn ask(&mut self, op: &Op) -> Option<RefEntry> {
        writeln!(self.stdin, "{}", op.key()).ok()?;
        self.stdin.flush().ok()?;
        let mut l = String::new();
        let n = self.stdout.read_line(&mut l).ok()?;
        if n == 0 {
            return None;
        }
        serde_json::from_str::<RefEntry>(l.trim()).ok()
    }
}

impl Drop for Zygote {
    fn drop(&mut self) {
        let _ = self.child.kill();
        let _ = self.child.wait();
    }
}

/// Pristine references for many ops, `jobs` zygotes at a time. Order of results = order of ops.
pub fn pristine_refs(ops: &[Op], jobs: usize) -> Vec<RefEntry> {
    let next = AtomicUsize::new(0);
    let results: Mutex<Vec<Option<RefEntry>>> = Mutex::new(vec![None; ops.len()]);
    std::thread::scope(|s| {
        for _ in 0..jobs.max(1).min(ops.len().max(1)) {
            s.spawn(|| {
                let mut z = Zygote::start();
                loop {
                    let i = next.fetch_add(1, Ordering::Relaxed);
                    if i >= ops.len() {
                        break;
                    }
                    let mut e = None;
                    if let Some(zy) = z.as_mut() {
                        e = zy.ask(&ops[i]);
                    }
                    if e.is_none() {
                        // zygote unusable: fall back to one exec per op, and try a new zygote
                        e = Some(pristine_ref(&ops[i]));
                        z = Zygote::start();
                    }
                    results.lock().unwrap()[i] = e;
                }
            });
        }
    });
    let r = results.into_inner().unwrap();
    r.into_iter().map(|e| e.unwrap()).collect()
}

static RESERVED_FDS: Mutex<Vec<std::fs::File>> = Mutex::new(Vec::new());

/// Keep `n` descriptors open on /dev/null (see `work_main`).
pub fn reserve_fds(n: usize) {
    let mut g = RESERVED_FDS.lock().unwrap_or_else(|e| e.into_inner());
    while g.len() < n {
        match std::fs::File::open("/dev/null") {
            Ok(f) => g.push(f),
            Err(_) => break,
        }
    }
}

pub fn release_reserved_fds() {
    RESERVED_FDS.lock().unwrap_or_else(|e| e.into_inner()).clear();
}

extern "C" {
    fn getrlimit(resource: i32, rlim: *mut [u64; 2]) -> i32;
}

/// Soft RLIMIT_NOFILE of this process, as text.
pub fn fd_limit() -> String {
    let mut r = [0u64; 2];
    if unsafe { getrlimit(7, &mut r) } == 0 {
        r[0].to_string()
    } else {
        "unknown".into()
    }
}
