//! a5sim: deterministic simulation with fault injection for a5-rs (property C13).
pub mod batch;
pub mod ops;
pub mod pool;
pub mod procs;
pub mod replay;
pub mod rng;
pub mod scenario;
pub mod sched;
