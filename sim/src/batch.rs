//! Batches: pool -> pristine references -> worker processes running seeded scenarios ->
//! merged statistics, violations (minimised, replayable), determinism samples.

use crate::ops::Op;
use crate::pool::{self, Pool};
use crate::procs::{pristine_refs, self_exe};
use crate::replay::{exec_file_fresh, profile_name, rle, save, ReplayFile, Shrinker};
use crate::rng::derive;
use crate::scenario::{generate, Foot, GenCtx, RefEntry, Scenario};
use crate::sched::{run, RunStats, Schedule, Violation, N_SITES};
use serde::{Deserialize, Serialize};
use std::collections::{BTreeMap, BTreeSet, HashSet};
use std::io::Write;
use std::process::{Command, Stdio};
use std::time::Instant;

#[derive(Clone, Debug, Serialize, Deserialize)]
pub struct KnownFinding {
    pub id: String,
    /// "open" findings suppress matching violations (reported as KNOWN-FINDING); "fixed" ones
    /// suppress nothing
    pub status: String,
    pub property: String,
    pub what: String,
    /// op kinds (as in Op::kind) the finding is about
    #[serde(default)]
    pub kinds: Vec<String>,
    /// inclusive range of the `origin` argument of the violating op
    #[serde(default)]
    pub origin_range: Option<(u8, u8)>,
    #[serde(default)]
    pub commit: Option<String>,
}

impl KnownFinding {
    pub fn matches(&self, v: &Violation) -> bool {
        if self.status != "open" {
            return false;
        }
        if !self.kinds.is_empty() && !self.kinds.iter().any(|k| k == v.op.kind()) {
            return false;
        }
        if let Some((lo, hi)) = self.origin_range {
            let o = match &v.op {
                Op::Forward { origin, .. } | Op::Inverse { origin, .. } => Some(*origin),
                _ => None,
            };
            match o {
                Some(o) if o >= lo && o <= hi => {}
                _ => return false,
            }
        }
        true
    }
}

pub fn load_known(path: &str) -> Vec<KnownFinding> {
    #[derive(Deserialize)]
    struct File {
        findings: Vec<KnownFinding>,
    }
    match std::fs::read_to_string(path) {
        Ok(s) => serde_json::from_str::<File>(&s).map(|f| f.findings).unwrap_or_default(),
        Err(_) => Vec::new(),
    }
}

#[derive(Clone, Debug, Default, Serialize, Deserialize)]
pub struct WorkerOut {
    pub scenarios: u64,
    pub multi_thread: u64,
    pub stats: RunStats,
    /// scenario-hash ^ schedule-hash of every non-trivial scenario (>= 2 threads that ran, >= 1
    /// warm hit of a memo slot filled earlier)
    pub nontrivial: Vec<u64>,
    pub schedules: Vec<u64>,
    pub states: Vec<u64>,
    pub transitions: Vec<u64>,
    pub states_capped: bool,
    /// (seed, event-log hash) for determinism comparison
    pub log_hashes: Vec<(u64, u64)>,
    pub candidates: Vec<String>,
    pub known_hits: BTreeMap<String, u64>,
    pub harness_errors: Vec<String>,
    pub wall_s: f64,
    pub samples: Vec<String>,
    pub modes: BTreeMap<String, u64>,
    pub threads_hist: Vec<u64>,
    /// set when the worker stopped early because a simulated thread hung inside the library:
    /// first index that was NOT run
    #[serde(default)]
    pub incomplete_from: Option<u64>,
}

fn add_vec(a: &mut Vec<u64>, b: &[u64]) {
    if a.len() < b.len() {
        a.resize(b.len(), 0);
    }
    for (i, x) in b.iter().enumerate() {
        a[i] += x;
    }
}

pub fn merge_stats(a: &mut RunStats, b: &RunStats) {
    a.ops += b.ops;
    a.sched_points += b.sched_points;
    a.switches += b.switches;
    add_vec(&mut a.yield_hits, &b.yield_hits);
    add_vec(&mut a.yield_preempts, &b.yield_preempts);
    a.thread_spawn_cold += b.thread_spawn_cold;
    a.thread_exit += b.thread_exit;
    a.late_join += b.late_join;
    a.restart_after_exit += b.restart_after_exit;
    a.forced_start += b.forced_start;
    a.clock_jumps += b.clock_jumps;
    a.slow_teardowns += b.slow_teardowns;
    a.private_mount_scenarios += b.private_mount_scenarios;
    for (k, v) in &b.fd_limit_scenarios {
        *a.fd_limit_scenarios.entry(k.clone()).or_insert(0) += v;
    }
    a.cpu_limited_threads += b.cpu_limited_threads;
    a.disk_fault_points += b.disk_fault_points;
    a.fs_write_fault_scenarios += b.fs_write_fault_scenarios;
    a.fs_write_faults_fired += b.fs_write_faults_fired;
    for (k, v) in &b.disk_faults_applied {
        *a.disk_faults_applied.entry(k.clone()).or_insert(0) += v;
    }
    a.teardown_ops += b.teardown_ops;
    a.library_threads += b.library_threads;
    a.blocked_handoffs += b.blocked_handoffs;
    a.hash_rekey += b.hash_rekey;
    for (k, v) in &b.poison_ops {
        *a.poison_ops.entry(k.clone()).or_insert(0) += v;
    }
    a.caught_panic_same += b.caught_panic_same;
    a.err_same += b.err_same;
    a.instance_handoff += b.instance_handoff;
    a.long_haul_threshold_crossed += b.long_haul_threshold_crossed;
    a.foreign_memo_change += b.foreign_memo_change;
    a.same_op_in_3_threads += b.same_op_in_3_threads;
    a.reflected_pair_adjacent += b.reflected_pair_adjacent;
    a.warm_hit_ops += b.warm_hit_ops;
    a.cold_fill_ops += b.cold_fill_ops;
    a.cold_filled = a.cold_filled.or(&b.cold_filled);
    a.warm_hit = a.warm_hit.or(&b.warm_hit);
    for (k, v) in &b.kinds {
        *a.kinds.entry(k.clone()).or_insert(0) += v;
    }
}

pub struct WorkArgs {
    pub pool_path: String,
    pub refs_path: String,
    pub verif_seed: u64,
    pub from: u64,
    pub to: u64,
    pub out_path: String,
    pub cand_dir: String,
    pub known_path: String,
    pub no_yield: bool,
    pub log_every: u64,
    pub tag: String,
    pub hash_every: u64,
}

pub fn scenario_seed(verif_seed: u64, i: u64) -> u64 {
    derive(verif_seed, 0x5343_0000_0000 + i)
}

const STATE_CAP: usize = 1_000_000;

/// `sim work`: run scenarios [from, to) of a batch in this process.
pub fn work_main(a: &WorkArgs) {
    crate::ops::quiet_panics();
    let pool: Pool = serde_json::from_str(&std::fs::read_to_string(&a.pool_path).expect("pool")).expect("pool json");
    let refs: Vec<RefEntry> = serde_json::from_str(&std::fs::read_to_string(&a.refs_path).expect("refs")).expect("refs json");
    let known = load_known(&a.known_path);
    let g = GenCtx::new(&pool, &refs);
    // (raw clock: the worker's ordinary clocks jump when a scenario says so)
    let t0 = crate::procs::raw_now_ns();
    // a few descriptors in reserve: a tree that leaks descriptors until open() fails must still
    // leave the worker able to write what it saw
    crate::procs::reserve_fds(8);
    let fd_limit = crate::procs::fd_limit();
    let mut out = WorkerOut::default();
    out.stats.yield_hits = vec![0; N_SITES];
    out.stats.yield_preempts = vec![0; N_SITES];
    out.threads_hist = vec![0; 8];
    let mut states: HashSet<u64> = HashSet::new();
    let mut transitions: HashSet<u64> = HashSet::new();
    for i in a.from..a.to {
        let seed = scenario_seed(a.verif_seed, i);
        let mut sc: Scenario = crate::scenario::generate_at(&g, seed, Some(i));
        if a.no_yield {
            sc.yield_mask = 0;
        }
        // progress marker for the parent's stall handling (not part of any result)
        let r = run(&sc, Schedule::Seeded, false);
        out.scenarios += 1;
        *out.modes.entry(sc.mode.clone()).or_insert(0) += 1;
        *out.modes.entry(if sc.pct_depth > 0 { "schedule:pct".to_string() } else { "schedule:random".to_string() }).or_insert(0) += 1;
        out.threads_hist[sc.threads.len().min(7)] += 1;
        let ran_threads = r.stats.thread_spawn_cold;
        if ran_threads >= 2 {
            out.multi_thread += 1;
        }
        if ran_threads >= 2 && r.stats.warm_hit_ops >= 1 {
            out.nontrivial.push(sc.hash64() ^ r.sched_hash.rotate_left(1));
        }
        out.schedules.push(r.sched_hash);
        if i % a.hash_every.max(1) == 0 {
            out.log_hashes.push((seed, r.log_hash ^ r.sched_hash.rotate_left(7)));
        }
        for s in &r.stats.states {
            if states.len() < STATE_CAP {
                states.insert(*s);
            } else {
                out.states_capped = true;
            }
        }
        for s in &r.stats.transitions {
            if transitions.len() < STATE_CAP {
                transitions.insert(*s);
            } else {
                out.states_capped = true;
            }
        }
        merge_stats(&mut out.stats, &r.stats);
        *out.stats.fd_limit_scenarios.entry(fd_limit.clone()).or_insert(0) += 1;
        if out.samples.len() < 2 && sc.threads.len() >= 2 && r.stats.warm_hit_ops >= 1 {
            out.samples.push(sample_text(&sc, &r.decisions));
        }
        if let Some(e) = &r.harness_error {
            out.harness_errors.push(format!("seed {}: {}", seed, e));
        }
        if let Some(v) = &r.violation {
            if let Some(k) = known.iter().find(|k| k.matches(v)) {
                *out.known_hits.entry(k.id.clone()).or_insert(0) += 1;
            } else if out.candidates.len() < 4 {
                let path = format!("{}/cand-{}-{}.json", a.cand_dir, a.tag, seed);
                let f = ReplayFile {
                    property: "C13".into(),
                    engine: "H".into(),
                    verif_seed: a.verif_seed,
                    profile: profile_name(),
                    scenarios: vec![sc.clone()],
                    decisions: vec![rle(&r.decisions)],
                    violation: Some(v.clone()),
                    minimised: false,
                    note: format!("batch index {} of worker range {}..{}", i, a.from, a.to),
                    origin: Some((a.from, i, a.no_yield)),
                };
                crate::procs::release_reserved_fds();
                save(&path, &f);
                crate::procs::reserve_fds(8);
                out.candidates.push(path);
            }
        }
        if r.hung {
            out.incomplete_from = Some(i + 1);
            break;
        }
        if a.log_every > 0 && (i - a.from + 1) % a.log_every == 0 {
            eprintln!("[work {}] {}/{} scenarios, {:.1}s", a.tag, i - a.from + 1, a.to - a.from, (crate::procs::raw_now_ns() - t0) as f64 / 1e9);
        }
    }
    out.states = states.into_iter().collect();
    out.transitions = transitions.into_iter().collect();
    out.wall_s = (crate::procs::raw_now_ns() - t0) as f64 / 1e9;
    crate::procs::release_reserved_fds();
    std::fs::write(&a.out_path, serde_json::to_string(&out).unwrap()).expect("write worker out");
    if out.incomplete_from.is_some() {
        // stuck threads cannot be joined: leave without running destructors
        std::process::exit(0);
    }
}

pub fn sample_text(sc: &Scenario, decisions: &[u16]) -> String {
    let mut s = format!("seed={} mode={} threads={} yield_mask={:#x} ", sc.seed, sc.mode, sc.threads.len(), sc.yield_mask);
    for (t, th) in sc.threads.iter().enumerate() {
        s.push_str(&format!("| t{} start={:?} key={:#x}: ", t, th.start, th.hash_key));
        for st in th.steps.iter().take(6) {
            s.push_str(&sc.ops[st.op as usize].describe());
            if st.repeat > 1 {
                s.push_str(&format!(" x{}", st.repeat));
            }
            s.push_str("; ");
        }
        if th.steps.len() > 6 {
            s.push_str(&format!("... ({} steps) ", th.steps.len()));
        }
    }
    let d: Vec<String> = rle(decisions).iter().take(24).map(|(t, n)| format!("t{}x{}", t, n)).collect();
    s.push_str(&format!("| schedule(rle)= {}", d.join(" ")));
    s
}

// ---------------------------------------------------------------------------------------------
// parent side

/// Reference processes see an EMPTY temp directory: whatever a changed library might persist
/// there, a history-free reference must not find it. (Every zygote makes a private sub-directory
/// of this one and empties it after each child.)
fn set_ref_tmpdir(work_dir: &str) {
    let d = format!("{}/tmp-ref", work_dir);
    let _ = std::fs::remove_dir_all(&d);
    let _ = std::fs::create_dir_all(&d);
    crate::procs::set_global_child_env(vec![("TMPDIR".to_string(), d)]);
}

pub struct BatchArgs {
    pub verif_seed: u64,
    pub scenarios: u64,
    pub pool_size: usize,
    pub workers: usize,
    pub work_dir: String,
    pub replay_dir: String,
    pub known_path: String,
    pub out_path: String,
    pub determinism_sample: u64,
    pub tag: String,
    pub no_yield: bool,
    /// record the event-log hash of every k-th scenario (16 normally, 1 for the determinism proof)
    pub hash_every: u64,
}

#[derive(Clone, Debug, Default, Serialize, Deserialize)]
pub struct BatchOut {
    pub engine: String,
    pub profile: String,
    pub verif_seed: u64,
    pub pool_ops: usize,
    pub pool_usable: usize,
    pub pool_no_cold_result: Vec<String>,
    pub pool_poison_ops: usize,
    pub ref_wall_s: f64,
    pub ref_tl_vs_fresh_pairs: u64,
    pub ref_tl_vs_fresh_mismatch: u64,
    pub scenarios: u64,
    pub multi_thread: u64,
    pub stats: RunStats,
    pub distinct_nontrivial: u64,
    pub distinct_schedules: u64,
    pub distinct_states: u64,
    pub distinct_transitions: u64,
    pub states_capped: bool,
    pub determinism_checked: u64,
    pub determinism_mismatch: u64,
    pub violations: Vec<ViolationReport>,
    pub known_hits: BTreeMap<String, u64>,
    pub harness_errors: Vec<String>,
    pub stalls: u64,
    pub wall_s: f64,
    pub run_wall_s: f64,
    pub samples: Vec<String>,
    pub modes: BTreeMap<String, u64>,
    pub threads_hist: Vec<u64>,
    pub slots_cold_filled: u32,
    pub slots_warm_hit: u32,
    pub slots_never_cold: Vec<u32>,
    pub slots_never_warm: Vec<u32>,
    /// (scenario seed, event-log hash) of every recorded scenario, sorted by seed
    pub log_hashes: Vec<(u64, u64)>,
}

#[derive(Clone, Debug, Serialize, Deserialize)]
pub struct ViolationReport {
    pub replay: String,
    pub line: String,
    pub minimised: bool,
    pub replay_confirmed: bool,
    pub steps_before: u64,
    pub steps_after: u64,
    pub shrink_evals: u32,
}

fn spawn_worker(b: &BatchArgs, pool_path: &str, refs_path: &str, from: u64, to: u64, tag: &str, no_yield: bool) -> std::process::Child {
    // Resource limits are tuning knobs too (swarm): the worker's descriptor limit depends on where
    // its range starts - 256, 1024 (the usual default), 4096 or whatever the machine gives. A tree
    // that leaks a descriptor per call or per thread reaches a small limit within one worker.
    let nofile = match derive(b.verif_seed, 0x6e6f_6669 ^ from) % 4 {
        0 => "256",
        1 => "1024",
        2 => "4096",
        _ => "",
    };
    let script = if nofile.is_empty() { "exec \"$0\" \"$@\"".to_string() } else { format!("ulimit -n {} 2>/dev/null; exec \"$0\" \"$@\"", nofile) };
    let mut c = Command::new("sh");
    c.arg("-c").arg(script).arg(self_exe());
    c.arg("work")
        .args(["--pool", pool_path, "--refs", refs_path])
        .args(["--seed", &b.verif_seed.to_string()])
        .args(["--from", &from.to_string(), "--to", &to.to_string()])
        .args(["--out", &format!("{}/work-{}.json", b.work_dir, tag)])
        .args(["--cand-dir", &b.work_dir])
        .args(["--known", &b.known_path])
        .args(["--tag", tag])
        .args(["--hash-every", &b.hash_every.to_string()]);
    if no_yield {
        c.arg("--no-yield");
    }
    if let Some(shim) = crate::procs::clock_shim() {
        c.env("LD_PRELOAD", shim);
    }
    // files a changed library might write stay inside the batch's scratch directory
    let tmp = format!("{}/tmp", b.work_dir);
    let _ = std::fs::create_dir_all(&tmp);
    c.env("TMPDIR", tmp);
    // the library prints a warning to stderr when a CRS instance crosses 10 000 lookups
    let errlog = std::fs::OpenOptions::new().create(true).append(true).open(format!("{}/workers.stderr", b.work_dir));
    match errlog {
        Ok(f) => c.stdin(Stdio::null()).stdout(Stdio::null()).stderr(Stdio::from(f)),
        Err(_) => c.stdin(Stdio::null()).stdout(Stdio::null()).stderr(Stdio::null()),
    };
    c.spawn().expect("spawn worker")
}

fn missing_slots(f: &Foot) -> Vec<u32> {
    let mut v = Vec::new();
    for i in 0..30u32 {
        if f.face & (1 << i) == 0 {
            v.push(1000 + i);
        }
    }
    for i in 0..240u32 {
        if f.sph[(i / 64) as usize] & (1u64 << (i % 64)) == 0 {
            v.push(i);
        }
    }
    v
}

pub fn batch_main(b: &BatchArgs) -> BatchOut {
    let t0 = Instant::now();
    std::fs::create_dir_all(&b.work_dir).expect("work dir");
    std::fs::create_dir_all(&b.replay_dir).expect("replay dir");
    let mut out = BatchOut { engine: "H".into(), profile: profile_name(), verif_seed: b.verif_seed, ..Default::default() };

    // 1. pool
    let pool = pool::build(b.verif_seed, b.pool_size);
    out.pool_ops = pool.ops.len();
    out.pool_poison_ops = pool.ops.iter().filter(|p| p.poison.is_some()).count();
    // 2. pristine-process references (also the sandbox screen)
    let ops: Vec<Op> = pool.ops.iter().map(|p| p.op.clone()).collect();
    let tr = Instant::now();
    set_ref_tmpdir(&b.work_dir);
    let refs = pristine_refs(&ops, b.workers);
    crate::procs::set_global_child_env(Vec::new());
    out.ref_wall_s = tr.elapsed().as_secs_f64();
    for (i, r) in refs.iter().enumerate() {
        if r.status != "ok" {
            out.pool_no_cold_result.push(format!("{}: {}", r.status, pool.ops[i].op.describe()));
        }
    }
    out.pool_usable = refs.iter().filter(|r| r.status == "ok").count();
    // reference-table sanity: thread-local and brand-new instance agree when both start cold
    {
        let mut by_key: BTreeMap<String, usize> = BTreeMap::new();
        for (i, p) in pool.ops.iter().enumerate() {
            by_key.insert(p.op.reference_form().key(), i);
        }
        for (i, p) in pool.ops.iter().enumerate() {
            if let Op::Forward { t: crate::ops::Target::Tl, .. } | Op::Inverse { t: crate::ops::Target::Tl, .. } = &p.op {
                if let Some(f) = p.op.with_target(crate::ops::Target::Fresh) {
                    if let Some(j) = by_key.get(&f.key()) {
                        if refs[i].status == "ok" && refs[*j].status == "ok" {
                            out.ref_tl_vs_fresh_pairs += 1;
                            if refs[i].outcome != refs[*j].outcome {
                                out.ref_tl_vs_fresh_mismatch += 1;
                            }
                        }
                    }
                }
            }
        }
    }
    let pool_path = format!("{}/pool.json", b.work_dir);
    let refs_path = format!("{}/refs.json", b.work_dir);
    std::fs::write(&pool_path, serde_json::to_string(&pool).unwrap()).expect("write pool");
    std::fs::write(&refs_path, serde_json::to_string(&refs).unwrap()).expect("write refs");
    if out.pool_usable == 0 {
        out.harness_errors.push("no usable pool op (every pristine reference failed)".into());
        out.wall_s = t0.elapsed().as_secs_f64();
        return out;
    }

    // 3. workers over contiguous index ranges (+ a determinism re-run of a sample, in a
    //    different process with a different range split)
    let trun = Instant::now();
    // Worker processes are recycled every CHUNK scenarios: a5 leaks each caller thread's
    // projection object (~22 KB, by design) when the thread ends, and a simulator that starts a
    // few threads per scenario would otherwise grow by gigabytes over a long batch.
    const CHUNK: u64 = 4000;
    let w = b.workers.max(1) as usize;
    let mut chunks: Vec<(u64, u64)> = Vec::new();
    {
        // at least one chunk per worker, at most CHUNK scenarios per chunk
        let per = ((b.scenarios + w as u64 - 1) / w as u64).clamp(1, CHUNK);
        let mut from = 0;
        while from < b.scenarios {
            let to = (from + per).min(b.scenarios);
            chunks.push((from, to));
            from = to;
        }
    }
    // determinism sample: the first chunks run a second time, with EXACTLY the same boundaries, in
    // processes of their own - started now, next to the first run, and compared afterwards
    let mut det_children: Vec<(String, std::process::Child)> = Vec::new();
    if b.determinism_sample > 0 && !b.no_yield {
        let n = b.determinism_sample.min(b.scenarios);
        let span = (n * b.hash_every.max(1)).min(b.scenarios);
        for (k, (from, to)) in chunks.iter().enumerate() {
            if *from >= span || k >= 4 {
                break;
            }
            let tag = format!("{}-det{}", b.tag, k);
            det_children.push((tag.clone(), spawn_worker(b, &pool_path, &refs_path, *from, *to, &tag, false)));
        }
    }
    let mut worker_outs: Vec<WorkerOut> = Vec::new();
    let mut rerun: Vec<(u64, u64)> = Vec::new();
    let mut running: Vec<(String, u64, u64, std::process::Child)> = Vec::new();
    let mut next_chunk = 0usize;
    let mut requeues = 0u32;
    loop {
        while running.len() < w && next_chunk < chunks.len() {
            let (from, to) = chunks[next_chunk];
            let tag = format!("{}-{}", b.tag, next_chunk);
            next_chunk += 1;
            running.push((tag.clone(), from, to, spawn_worker(b, &pool_path, &refs_path, from, to, &tag, b.no_yield)));
        }
        if running.is_empty() {
            break;
        }
        // reap whichever worker has finished
        let mut done: Option<usize> = None;
        for (i, r) in running.iter_mut().enumerate() {
            if let Ok(Some(_)) = r.3.try_wait() {
                done = Some(i);
                break;
            }
        }
        let i = match done {
            Some(i) => i,
            None => {
                std::thread::sleep(std::time::Duration::from_millis(5));
                continue;
            }
        };
        let (tag, from, to, mut ch) = running.swap_remove(i);
        let st = ch.wait().expect("wait worker");
        let path = format!("{}/work-{}.json", b.work_dir, tag);
        match (st.code(), std::fs::read_to_string(&path)) {
            (Some(0), Ok(s)) => match serde_json::from_str::<WorkerOut>(&s) {
                Ok(o) => {
                    if let Some(next) = o.incomplete_from {
                        // an operation never returned (I5 candidate written); carry on behind it,
                        // but not for ever if every range hangs
                        requeues += 1;
                        if next < to && requeues <= 8 {
                            chunks.push((next, to));
                        }
                    }
                    worker_outs.push(o)
                }
                Err(e) => out.harness_errors.push(format!("worker {} output unreadable: {}", tag, e)),
            },
            (Some(3), _) => {
                out.stalls += 1;
                rerun.push((from, to));
            }
            (code, _) => out.harness_errors.push(format!("worker {} died (status {:?})", tag, code)),
        }
        let _ = std::fs::remove_file(&path);
    }
    // stalled ranges are re-run once with yield sites off (a changed tree may hold a real lock
    // across a yield site; parking there starves the other simulated threads - that is the
    // harness's doing, not a property violation)
    // (all stalled ranges at once; a range whose no-yield run ends early because an operation
    // never returned has produced its I5 candidate - the rest of that range is not re-queued)
    {
        let mut chs = Vec::new();
        for (k, (from, to)) in rerun.into_iter().enumerate().take(b.workers.max(1) * 2) {
            let tag = format!("{}-rerun{}", b.tag, k);
            chs.push((tag.clone(), from, to, spawn_worker(b, &pool_path, &refs_path, from, to, &tag, true)));
        }
        for (tag, from, to, mut ch) in chs {
            let st = ch.wait().expect("wait worker");
            let path = format!("{}/work-{}.json", b.work_dir, tag);
            match (st.code(), std::fs::read_to_string(&path)) {
                (Some(0), Ok(s)) => {
                    if let Ok(o) = serde_json::from_str::<WorkerOut>(&s) {
                        worker_outs.push(o)
                    }
                }
                (code, _) => out.harness_errors.push(format!("range {}..{} stalled or died again with yields off (status {:?})", from, to, code)),
            }
        }
    }
    // determinism sample
    let mut first_hashes: BTreeMap<u64, u64> = BTreeMap::new();
    for o in &worker_outs {
        for (s, h) in &o.log_hashes {
            first_hashes.insert(*s, *h);
        }
    }
    if b.hash_every == 1 {
        out.log_hashes = first_hashes.iter().map(|(a, b)| (*a, *b)).collect();
    }
    if b.determinism_sample > 0 && !b.no_yield {
        // Re-run the first chunks with EXACTLY the same boundaries in new processes: every
        // scenario then has the same in-process history as in the first run, so the event logs
        // must agree if the simulator and the library are deterministic. (Re-running a scenario
        // behind different predecessors may legitimately take another schedule on a tree with a
        // process-wide cache: its miss path has more scheduling points than its hit path.)
        let chs = std::mem::take(&mut det_children);
        for (tag, mut ch) in chs {
            let _ = ch.wait();
            if let Ok(s) = std::fs::read_to_string(format!("{}/work-{}.json", b.work_dir, tag)) {
                if let Ok(o) = serde_json::from_str::<WorkerOut>(&s) {
                    for (s, h) in &o.log_hashes {
                        if let Some(h0) = first_hashes.get(s) {
                            out.determinism_checked += 1;
                            if h0 != h {
                                out.determinism_mismatch += 1;
                            }
                        }
                    }
                }
            }
        }
    }
    out.run_wall_s = trun.elapsed().as_secs_f64();

    // 4. merge
    let mut nontrivial: HashSet<u64> = HashSet::new();
    let mut schedules: HashSet<u64> = HashSet::new();
    let mut states: HashSet<u64> = HashSet::new();
    let mut transitions: HashSet<u64> = HashSet::new();
    out.stats.yield_hits = vec![0; N_SITES];
    out.stats.yield_preempts = vec![0; N_SITES];
    out.threads_hist = vec![0; 8];
    let mut candidates: Vec<String> = Vec::new();
    for o in &worker_outs {
        out.scenarios += o.scenarios;
        out.multi_thread += o.multi_thread;
        merge_stats(&mut out.stats, &o.stats);
        nontrivial.extend(o.nontrivial.iter());
        schedules.extend(o.schedules.iter());
        states.extend(o.states.iter());
        transitions.extend(o.transitions.iter());
        out.states_capped |= o.states_capped;
        candidates.extend(o.candidates.iter().cloned());
        for (k, v) in &o.known_hits {
            *out.known_hits.entry(k.clone()).or_insert(0) += v;
        }
        out.harness_errors.extend(o.harness_errors.iter().cloned());
        if out.samples.len() < 4 {
            out.samples.extend(o.samples.iter().cloned());
        }
        for (k, v) in &o.modes {
            *out.modes.entry(k.clone()).or_insert(0) += v;
        }
        add_vec(&mut out.threads_hist, &o.threads_hist);
    }
    out.distinct_nontrivial = nontrivial.len() as u64;
    out.distinct_schedules = schedules.len() as u64;
    out.distinct_states = states.len() as u64;
    out.distinct_transitions = transitions.len() as u64;
    out.slots_cold_filled = out.stats.cold_filled.count();
    out.slots_warm_hit = out.stats.warm_hit.count();
    out.slots_never_cold = missing_slots(&out.stats.cold_filled);
    out.slots_never_warm = missing_slots(&out.stats.warm_hit);

    // 5. violations: confirm in a fresh process, minimise, confirm the minimised file strictly
    let mut seen_classes: Vec<Violation> = Vec::new();
    let mut uniq = BTreeSet::new();
    for c in candidates {
        if !uniq.insert(c.clone()) {
            continue;
        }
        let f = match crate::replay::load(&c) {
            Ok(f) => f,
            Err(e) => {
                out.harness_errors.push(e);
                continue;
            }
        };
        let target = f.violation.clone().unwrap();
        if seen_classes.iter().any(|v| v.same_class(&target)) || out.violations.len() >= 3 {
            continue;
        }
        seen_classes.push(target.clone());
        let g = GenCtx::new(&pool, &refs);
        let regen = |i: u64, no_yield: bool| -> Scenario {
            let mut sc = crate::scenario::generate_at(&g, scenario_seed(b.verif_seed, i), Some(i));
            if no_yield {
                sc.yield_mask = 0;
            }
            sc
        };
        start_minimise_budget();
        out.violations.push(minimise_and_store(f, &c, &b.replay_dir, &b.work_dir, Some(&regen)));
    }
    out.wall_s = t0.elapsed().as_secs_f64();
    if !b.out_path.is_empty() {
        std::fs::write(&b.out_path, serde_json::to_string_pretty(&out).unwrap()).expect("write batch out");
    }
    out
}

fn shrink_budget_secs() -> u64 {
    std::env::var("A5SIM_SHRINK_SECS").ok().and_then(|s| s.parse().ok()).unwrap_or(90)
}

/// End of the time a batch may spend on confirming and minimising what it found (raw clock, ns;
/// 0 = not set). Each fresh-process replay can take minutes when a violation needs a worker's
/// whole history; past this point violations are still reported, with the replay file as
/// recorded, but no longer shrunk.
static MINIMISE_DEADLINE_NS: std::sync::atomic::AtomicI64 = std::sync::atomic::AtomicI64::new(0);

pub fn start_minimise_budget() {
    let secs: i64 = std::env::var("A5SIM_MINIMISE_TOTAL_SECS").ok().and_then(|s| s.parse().ok()).unwrap_or(600);
    // (set once per process: at the first violation)
    let _ = MINIMISE_DEADLINE_NS.compare_exchange(0, crate::procs::raw_now_ns() + secs * 1_000_000_000, std::sync::atomic::Ordering::Relaxed, std::sync::atomic::Ordering::Relaxed);
}

fn minimise_budget_left() -> bool {
    let d = MINIMISE_DEADLINE_NS.load(std::sync::atomic::Ordering::Relaxed);
    d == 0 || crate::procs::raw_now_ns() < d
}

pub fn minimise_and_store(f: ReplayFile, cand_path: &str, replay_dir: &str, work_dir: &str, regen: Option<&dyn Fn(u64, bool) -> Scenario>) -> ViolationReport {
    let mut f = f;
    let target = f.violation.clone().unwrap();
    let steps_before: u64 = f.scenarios.iter().map(|s| s.total_ops()).sum();
    let seed = f.scenarios.last().map(|s| s.seed).unwrap_or(0);
    let final_path = format!("{}/C13-{}-{}-{:016x}.json", replay_dir, f.engine, f.profile, seed);
    if !minimise_budget_left() {
        f.note = format!("{}; stored as recorded: the batch's budget for confirming and minimising was used up by earlier violations", f.note);
        save(&final_path, &f);
        return ViolationReport { replay: final_path, line: target.line(), minimised: false, replay_confirmed: false, steps_before, steps_after: steps_before, shrink_evals: 0 };
    }
    // does the unminimised candidate reproduce strictly in a fresh process?
    let mut strict_ok = matches!(exec_file_fresh(cand_path, "strict"), Ok(o) if o.violation.as_ref().map(|v| v.same_class(&target)).unwrap_or(false));
    if !strict_ok {
        // The violation does not show when the scenario runs alone in a fresh process: it depends
        // on what the worker process did before (process-wide state). Rebuild the worker's whole
        // history up to and including the failing scenario; that sequence is the replay unit.
        if let (Some((from, idx, no_yield)), Some(regen), true) = (f.origin, regen, minimise_budget_left()) {
            let mut seq = f.clone();
            seq.scenarios = (from..=idx).map(|i| regen(i, no_yield)).collect();
            seq.decisions = vec![Vec::new(); seq.scenarios.len()];
            save(cand_path, &seq);
            if let Ok(o) = exec_file_fresh(cand_path, "seeded") {
                if o.violation.as_ref().map(|v| v.same_class(&target)).unwrap_or(false) {
                    let n = o.scenario_index.map(|i| i + 1).unwrap_or(seq.scenarios.len());
                    seq.scenarios.truncate(n);
                    seq.decisions = o.decisions.clone();
                    seq.decisions.truncate(n);
                    seq.note = format!("{}; needs the in-process history of {} earlier scenarios", seq.note, n - 1);
                    save(cand_path, &seq);
                    strict_ok = matches!(exec_file_fresh(cand_path, "strict"), Ok(o) if o.violation.as_ref().map(|v| v.same_class(&target)).unwrap_or(false));
                    f = seq;
                }
            }
        }
    }
    let mut sh = Shrinker { target: target.clone(), tmp_path: format!("{}/shrink-tmp-{:016x}.json", work_dir, seed), evals: 0, log: Vec::new(), schedule_sensitive: false, deadline: Some(Instant::now() + std::time::Duration::from_secs(shrink_budget_secs())) };
    let min = if minimise_budget_left() { sh.shrink(f.clone()) } else { f.clone() };
    let steps_after: u64 = min.scenarios.iter().map(|s| s.total_ops()).sum();
    save(&final_path, &min);
    let confirmed = matches!(exec_file_fresh(&final_path, "strict"), Ok(o) if o.violation.as_ref().map(|v| v.same_class(&sh.target)).unwrap_or(false) && o.harness_error.is_none());
    let (path, minimised, ok, line_v) = if confirmed {
        (final_path, true, true, min.violation.clone().unwrap_or(target.clone()))
    } else {
        // fall back to the unminimised file
        save(&final_path, &f);
        (final_path, false, strict_ok, target.clone())
    };
    let _ = std::io::stderr().flush();
    ViolationReport { replay: path, line: line_v.line(), minimised, replay_confirmed: ok, steps_before, steps_after, shrink_evals: sh.evals }
}

// ---------------------------------------------------------------------------------------------
// Engine W: cold worlds. A world is a fresh process that first populates the process-wide lazy
// tables in a chosen order (from one or several simulated threads) and then runs an ordinary
// scenario; every result is compared with the pristine-process reference table.

pub struct WorldArgs {
    pub verif_seed: u64,
    pub worlds: u64,
    pub pool_size: usize,
    pub workers: usize,
    pub work_dir: String,
    pub replay_dir: String,
    pub known_path: String,
    pub out_path: String,
}

#[derive(Clone, Debug, Default, Serialize, Deserialize)]
pub struct WorldsOut {
    pub engine: String,
    pub profile: String,
    pub worlds: u64,
    pub pool_ops: usize,
    pub pristine_refs: usize,
    pub orders_covered: u64,
    pub prologue_variants: BTreeMap<String, u64>,
    pub prefix_lengths: Vec<u64>,
    pub stats: RunStats,
    pub distinct_nontrivial: u64,
    pub cross_world_groups: u64,
    pub cross_world_log_mismatch: u64,
    /// files that world processes created or modified in their temp directory (0 on a tree that
    /// touches no file) and the disk faults applied to them between two worlds of a chain
    #[serde(default)]
    pub fs_files_written: u64,
    #[serde(default)]
    pub fs_faults: BTreeMap<String, u64>,
    pub violations: Vec<ViolationReport>,
    pub known_hits: BTreeMap<String, u64>,
    pub harness_errors: Vec<String>,
    pub wall_s: f64,
    pub run_wall_s: f64,
    pub samples: Vec<String>,
}

const PERMS: [[usize; 4]; 24] = [
    [0, 1, 2, 3], [0, 1, 3, 2], [0, 2, 1, 3], [0, 2, 3, 1], [0, 3, 1, 2], [0, 3, 2, 1],
    [1, 0, 2, 3], [1, 0, 3, 2], [1, 2, 0, 3], [1, 2, 3, 0], [1, 3, 0, 2], [1, 3, 2, 0],
    [2, 0, 1, 3], [2, 0, 3, 1], [2, 1, 0, 3], [2, 1, 3, 0], [2, 3, 0, 1], [2, 3, 1, 0],
    [3, 0, 1, 2], [3, 0, 2, 1], [3, 1, 0, 2], [3, 1, 2, 0], [3, 2, 0, 1], [3, 2, 1, 0],
];
pub const TABLE_NAMES: [&str; 4] = ["ORIGINS", "PENTAGON_CONSTANTS", "PATTERN_REVERSED", "PATTERN_FLIPPED_REVERSED"];

/// Pool indices of ops that touch exactly one lazy table each.
fn table_ops(pool: &Pool, refs: &[RefEntry]) -> Option<[Vec<u32>; 4]> {
    let mut t: [Vec<u32>; 4] = [Vec::new(), Vec::new(), Vec::new(), Vec::new()];
    for (i, p) in pool.ops.iter().enumerate() {
        if refs[i].status != "ok" {
            continue;
        }
        match &p.op {
            Op::OriginsDigest | Op::FindNearestOrigin { .. } => t[0].push(i as u32),
            Op::PentagonDigest | Op::FaceVertices => t[1].push(i as u32),
            Op::IjToS { orient, .. } if matches!(orient % 6, 0 | 1 | 4 | 5) => t[2].push(i as u32),
            Op::IjToS { orient, .. } if matches!(orient % 6, 2 | 3) => t[3].push(i as u32),
            _ => {}
        }
    }
    if t.iter().any(|v| v.is_empty()) {
        None
    } else {
        Some(t)
    }
}

fn world_file(g: &GenCtx, tables: &[Vec<u32>; 4], verif_seed: u64, w: u64) -> (ReplayFile, usize, usize, &'static str) {
    let mut rng = crate::rng::Rng::new(derive(verif_seed, 0x776f_726c_6400 + w));
    let perm_ix = (w % 24) as usize;
    let prefix = if w < 72 { 4 } else { rng.below(5) as usize };
    let variant = match (w / 24) % 4 {
        0 => "one_thread_forced_order",
        1 => "chained_threads_forced_order",
        2 => "free_threads_scheduler_decides",
        // the process's very first library calls carry invalid arguments (a lazily built table
        // that captures something from, or is poisoned by, its first caller)
        _ => "poison_first",
    };
    let prefix = if variant == "poison_first" { rng.range(1, 3) as usize } else { prefix };
    // several worlds share one main scenario, so that the same calls are seen after different
    // population orders
    let main_seed = scenario_seed(verif_seed, 0x5700_0000 + w / 6);
    // (orders are complete for the first 72 worlds: 24 orders x the three table-forcing variants)
    let mut main = generate(g, main_seed);
    main.probe = rng.pct(50);
    // later worlds of a chain often run a sibling-shifted copy: the neighbours of what the
    // process before them asked for (drawn from a PRNG of its own)
    if w % CHAIN != 0 {
        let mut sr = crate::rng::Rng::new(derive(verif_seed, 0x7369_6200 + w));
        if sr.pct(60) {
            let n = crate::scenario::sibling_shift(&mut main, g, &mut sr);
            if n > 0 {
                main.mode = format!("{}+sibling_shift", main.mode);
            }
        }
    }
    // prologue
    let mut pro = Scenario {
        seed: derive(verif_seed, 0x7072_6f00 + w),
        ops: Vec::new(),
        expected: Vec::new(),
        foot: Vec::new(),
        poison: Vec::new(),
        threads: Vec::new(),
        yield_mask: if variant == "free_threads_scheduler_decides" { (1 << a5::verif::site::ORIGINS_GET) | (1 << a5::verif::site::PENTAGON_GET) | (1 << a5::verif::site::HILBERT_PATTERN) } else { 0 },
        preempt_pct: 50,
        switch_pct: 50,
        n_inst: 1,
        n_crs: 1,
        probe: false,
        mode: format!("world_prologue:{}", variant),
        sched_salt: 0,
        pct_depth: 0,
        fs_fault: 0,
    };
    // kind-balanced choice among the poison ops of the pool
    let poison_ops: Vec<u32> = (0..g.pool.ops.len() as u32).filter(|i| g.pool.ops[*i as usize].poison.is_some() && g.refs[*i as usize].status == "ok").collect();
    for k in 0..prefix {
        let table = PERMS[perm_ix][k];
        let ix = if variant == "poison_first" && !poison_ops.is_empty() {
            let mut pick = *rng.pick(&poison_ops);
            for _ in 0..6 {
                let kind = g.kinds[rng.below(g.kinds.len() as u64) as usize];
                let c: Vec<u32> = poison_ops.iter().copied().filter(|i| g.pool.ops[*i as usize].op.kind() == kind).collect();
                if !c.is_empty() {
                    pick = *rng.pick(&c);
                    break;
                }
            }
            pick as usize
        } else {
            *rng.pick(&tables[table]) as usize
        };
        pro.ops.push(g.pool.ops[ix].op.clone());
        pro.expected.push(g.refs[ix].outcome.clone().unwrap());
        pro.foot.push(g.refs[ix].foot);
        pro.poison.push(None);
        let step = crate::scenario::Step { op: k as u32, repeat: 1, rekey: None, clock_jump_ms: 0, disk_fault: 0 };
        match variant {
            "one_thread_forced_order" => {
                if pro.threads.is_empty() {
                    pro.threads.push(crate::scenario::ThreadPlan { start: crate::scenario::Start::AtBegin, hash_key: 0, steps: Vec::new(), stack_kb: 0, exit_ops: Vec::new(), exit_guard_early: false, cpus: 0 });
                }
                pro.threads[0].steps.push(step);
            }
            "poison_first" => {
                if pro.threads.is_empty() {
                    pro.threads.push(crate::scenario::ThreadPlan { start: crate::scenario::Start::AtBegin, hash_key: 0, steps: Vec::new(), stack_kb: 0, exit_ops: Vec::new(), exit_guard_early: false, cpus: 0 });
                }
                pro.threads[0].steps.push(step);
            }
            "chained_threads_forced_order" => {
                let start = if k == 0 { crate::scenario::Start::AtBegin } else { crate::scenario::Start::AfterExit((k - 1) as u8) };
                pro.threads.push(crate::scenario::ThreadPlan { start, hash_key: 0, steps: vec![step], stack_kb: 0, exit_ops: Vec::new(), exit_guard_early: false, cpus: 0 });
            }
            _ => {
                pro.threads.push(crate::scenario::ThreadPlan { start: crate::scenario::Start::AtBegin, hash_key: 0, steps: vec![step], stack_kb: 0, exit_ops: Vec::new(), exit_guard_early: false, cpus: 0 });
            }
        }
    }
    let mut scenarios = Vec::new();
    if prefix > 0 {
        scenarios.push(pro);
    }
    scenarios.push(main);
    let f = ReplayFile {
        property: "C13".into(),
        engine: "W".into(),
        verif_seed,
        profile: profile_name(),
        decisions: vec![Vec::new(); scenarios.len()],
        scenarios,
        violation: None,
        minimised: false,
        note: format!("world {}: order {:?} prefix {} variant {}", w, PERMS[perm_ix].iter().map(|t| TABLE_NAMES[*t]).collect::<Vec<_>>(), prefix, variant),
        origin: None,
    };
    (f, perm_ix, prefix, variant)
}

pub const CHAIN: u64 = 4;

/// Seeded disk fault on one of the files a world process left in its temp directory (a crash at
/// an arbitrary point of a write, as seen by the next process). Returns (files seen, fault kind).
pub fn apply_disk_fault(tmp: &str, log: &str, verif_seed: u64, w: u64) -> (u64, Option<&'static str>) {
    let mut files: Vec<String> = std::fs::read_to_string(log).unwrap_or_default().lines().map(|l| l.to_string()).filter(|p| p.starts_with(tmp)).collect();
    // ... and whatever else lies under the chain's directory: files the library reached through
    // a hard-coded shared path (/dev/shm, /var/tmp, /tmp are bind mounts of its sub-directories)
    // carry that path in the log, not this one
    crate::procs::files_under_pub(std::path::Path::new(tmp), &mut files);
    files.retain(|p| !p.ends_with("/fslog.txt"));
    files.sort();
    files.dedup();
    files.retain(|p| std::fs::metadata(p).map(|m| m.is_file()).unwrap_or(false));
    let mut rng = crate::rng::Rng::new(derive(verif_seed, 0x6673_0000 + w));
    if files.is_empty() || !rng.pct(60) {
        return (files.len() as u64, None);
    }
    let p = rng.pick(&files).clone();
    let kind = crate::procs::damage_file(&p, &mut rng);
    (files.len() as u64, Some(kind))
}

/// Environment of one world process of a chain: private temp directory, file log, and - for two
/// worlds in five - seeded write faults (short write, ENOSPC, EIO) on the files the library
/// itself opens for writing.
pub fn chain_env(tmp: &str, log: &str, verif_seed: u64, w: u64) -> Vec<(String, String)> {
    let mut v = vec![
        ("TMPDIR".to_string(), tmp.to_string()),
        ("A5SIM_SHARED_TMP".to_string(), "1".to_string()),
        ("A5SIM_FS_ROOT".to_string(), tmp.to_string()),
        ("HOME".to_string(), format!("{}/home", tmp)),
        ("XDG_CACHE_HOME".to_string(), format!("{}/home/.cache", tmp)),
        ("A5SIM_FS_LOG".to_string(), log.to_string()),
    ];
    if derive(verif_seed, 0x6678_0000 + w) % 12 == 0 {
        // an unusable environment: the temp, home and cache directories do not exist
        v[0].1 = format!("{}/gone", tmp);
        for e in v.iter_mut() {
            if e.0 == "HOME" {
                e.1 = format!("{}/gone/home", tmp);
            } else if e.0 == "XDG_CACHE_HOME" {
                e.1 = format!("{}/gone/home/.cache", tmp);
            }
        }
        v.push(("A5SIM_MISSING_DIRS".to_string(), "1".to_string()));
    }
    let z = derive(verif_seed, 0x6677_0000 + w);
    if z % 5 < 2 {
        v.push(("A5SIM_FS_FAULT".to_string(), (z % 1_000_000 + 1).to_string()));
    }
    v
}

/// Replay unit of a violation that needs durable state: the worlds of one chain, in order, each
/// in its own fresh process, sharing one temp directory, with the seeded disk faults in between.
#[derive(Clone, Debug, Serialize, Deserialize)]
pub struct ChainFile {
    pub property: String,
    pub engine: String,
    pub profile: String,
    pub verif_seed: u64,
    pub first_world: u64,
    pub worlds: Vec<ReplayFile>,
    pub violation: Option<Violation>,
    pub note: String,
}

/// Run a chain; returns the first violation with the index of its world.
pub fn run_chain(c: &ChainFile, work_dir: &str) -> Option<(usize, Violation)> {
    let tmp = format!("{}/tmp-chainreplay-{}", work_dir, c.first_world);
    let _ = std::fs::remove_dir_all(&tmp);
    let _ = std::fs::create_dir_all(format!("{}/home/.cache", tmp));
    let log = format!("{}/fslog-chainreplay-{}.txt", work_dir, c.first_world);
    let mut found = None;
    for (i, f) in c.worlds.iter().enumerate() {
        let w = c.first_world + i as u64;
        let _ = std::fs::remove_file(&log);
        crate::procs::CHILD_ENV.with(|e| {
            *e.borrow_mut() = chain_env(&tmp, &log, c.verif_seed, w);
        });
        let path = format!("{}/chainreplay-world-{}.json", work_dir, w);
        save(&path, f);
        let r = exec_file_fresh(&path, "seeded");
        crate::procs::CHILD_ENV.with(|e| e.borrow_mut().clear());
        let _ = std::fs::remove_file(&path);
        if let Ok(o) = r {
            if let Some(v) = o.violation {
                found = Some((i, v));
                break;
            }
        }
        apply_disk_fault(&tmp, &log, c.verif_seed, w);
    }
    let _ = std::fs::remove_dir_all(&tmp);
    let _ = std::fs::remove_file(&log);
    found
}

pub fn worlds_main(b: &WorldArgs) -> WorldsOut {
    use std::sync::atomic::{AtomicU64, Ordering};
    use std::sync::{Arc, Mutex};
    let t0 = Instant::now();
    std::fs::create_dir_all(&b.work_dir).expect("work dir");
    std::fs::create_dir_all(&b.replay_dir).expect("replay dir");
    let mut out = WorldsOut { engine: "W".into(), profile: profile_name(), ..Default::default() };
    out.stats.yield_hits = vec![0; N_SITES];
    out.stats.yield_preempts = vec![0; N_SITES];
    out.prefix_lengths = vec![0; 5];
    let pool = pool::build(derive(b.verif_seed, 0x77706f6f6c), b.pool_size);
    let ops: Vec<Op> = pool.ops.iter().map(|p| p.op.clone()).collect();
    set_ref_tmpdir(&b.work_dir);
    let refs = pristine_refs(&ops, b.workers);
    crate::procs::set_global_child_env(Vec::new());
    out.pool_ops = pool.ops.len();
    out.pristine_refs = refs.iter().filter(|r| r.status == "ok").count();
    let known = load_known(&b.known_path);
    let g = GenCtx::new(&pool, &refs);
    let tables = match table_ops(&pool, &refs) {
        Some(t) => t,
        None => {
            out.harness_errors.push("pool lacks a usable single-table op".into());
            return out;
        }
    };
    let trun = Instant::now();
    let next = Arc::new(AtomicU64::new(0));
    type Res = (u64, usize, usize, &'static str, String, Result<crate::replay::ExecOut, String>, u64);
    let results: Arc<Mutex<Vec<Res>>> = Arc::new(Mutex::new(Vec::new()));
    let fs_stats: Arc<Mutex<(u64, BTreeMap<String, u64>)>> = Arc::new(Mutex::new((0, BTreeMap::new())));
    std::thread::scope(|s| {
        for _ in 0..b.workers.max(1) {
            let next = next.clone();
            let results = results.clone();
            let g = &g;
            let tables = &tables;
            let fs_stats = fs_stats.clone();
            s.spawn(move || loop {
                // a CHAIN of consecutive worlds shares one private temp directory and runs
                // sequentially: between two of them a seeded disk fault may hit a file the earlier
                // one left behind (torn, lost or corrupted write - a crash at an arbitrary point)
                let c = next.fetch_add(1, Ordering::Relaxed);
                let first = c * CHAIN;
                if first >= b.worlds {
                    break;
                }
                let tmp = format!("{}/tmp-chain-{}", b.work_dir, c);
                let _ = std::fs::remove_dir_all(&tmp);
                let _ = std::fs::create_dir_all(format!("{}/home/.cache", tmp));
                let log = format!("{}/fslog-{}.txt", b.work_dir, c);
                for w in first..(first + CHAIN).min(b.worlds) {
                    let _ = std::fs::remove_file(&log);
                    let env = chain_env(&tmp, &log, b.verif_seed, w);
                    if env.iter().any(|(k, _)| k == "A5SIM_FS_FAULT") {
                        *fs_stats.lock().unwrap().1.entry("worlds_with_write_faults(short write / ENOSPC / EIO on files the library opens)".to_string()).or_insert(0) += 1;
                    }
                    if env.iter().any(|(k, _)| k == "A5SIM_MISSING_DIRS") {
                        *fs_stats.lock().unwrap().1.entry("worlds_whose_temp_home_and_cache_directories_do_not_exist".to_string()).or_insert(0) += 1;
                    }
                    crate::procs::CHILD_ENV.with(|e| {
                        *e.borrow_mut() = env;
                    });
                    let (f, perm, prefix, variant) = world_file(g, tables, b.verif_seed, w);
                    let path = format!("{}/world-{}.json", b.work_dir, w);
                    save(&path, &f);
                    let r = exec_file_fresh(&path, "seeded");
                    crate::procs::CHILD_ENV.with(|e| e.borrow_mut().clear());
                    let main_hash = f.scenarios.last().map(|s| s.hash64() ^ (s.probe as u64)).unwrap_or(0);
                    if !matches!(&r, Ok(o) if o.violation.is_some()) {
                        let _ = std::fs::remove_file(&path);
                    }
                    results.lock().unwrap().push((w, perm, prefix, variant, path, r, main_hash));
                    // disk faults on what this world wrote
                    let (n_files, kind) = apply_disk_fault(&tmp, &log, b.verif_seed, w);
                    let mut st = fs_stats.lock().unwrap();
                    st.0 += n_files;
                    if let Some(k) = kind {
                        *st.1.entry(k.to_string()).or_insert(0) += 1;
                    }
                }
                let _ = std::fs::remove_dir_all(&tmp);
                let _ = std::fs::remove_file(&log);
            });
        }
    });
    out.run_wall_s = trun.elapsed().as_secs_f64();
    {
        let st = fs_stats.lock().unwrap();
        out.fs_files_written = st.0;
        out.fs_faults = st.1.clone();
    }
    let mut results = std::mem::take(&mut *results.lock().unwrap());
    results.sort_by_key(|r| r.0);
    let mut orders = BTreeSet::new();
    let mut nontrivial: HashSet<u64> = HashSet::new();
    let mut groups: BTreeMap<u64, BTreeSet<u64>> = BTreeMap::new();
    let mut seen_classes: Vec<Violation> = Vec::new();
    for (w, perm, prefix, variant, path, r, main_hash) in results {
        out.worlds += 1;
        if prefix == 4 {
            orders.insert(perm);
        }
        out.prefix_lengths[prefix] += 1;
        *out.prologue_variants.entry(variant.to_string()).or_insert(0) += 1;
        match r {
            Err(e) => out.harness_errors.push(format!("world {}: {}", w, e)),
            Ok(o) => {
                if let Some(e) = &o.harness_error {
                    out.harness_errors.push(format!("world {}: {}", w, e));
                }
                if let Some(s) = &o.stats {
                    merge_stats(&mut out.stats, s);
                    if s.thread_spawn_cold >= 2 && s.warm_hit_ops >= 1 {
                        nontrivial.insert(main_hash ^ (perm as u64) << 56 ^ (prefix as u64) << 52 ^ o.sched_hashes.last().copied().unwrap_or(0).rotate_left(3));
                    }
                }
                if o.violation.is_none() {
                    if let Some(h) = o.log_hashes.last() {
                        groups.entry(main_hash).or_default().insert(*h);
                    }
                }
                if out.samples.len() < 2 {
                    out.samples.push(format!("world {} order={:?} prefix={} variant={} main_scenario_hash={:#x} log_hash={:#x}", w, PERMS[perm].iter().map(|t| TABLE_NAMES[*t]).collect::<Vec<_>>(), prefix, variant, main_hash, o.log_hashes.last().copied().unwrap_or(0)));
                }
                if let Some(v) = &o.violation {
                    if let Some(k) = known.iter().find(|k| k.matches(v)) {
                        *out.known_hits.entry(k.id.clone()).or_insert(0) += 1;
                    } else if !seen_classes.iter().any(|c| c.same_class(v)) && out.violations.len() < 3 {
                        seen_classes.push(v.clone());
                        if let Ok(mut f) = crate::replay::load(&path) {
                            f.violation = Some(v.clone());
                            f.decisions = o.decisions.clone();
                            f.scenarios.truncate(o.scenario_index.map(|i| i + 1).unwrap_or(f.scenarios.len()));
                            f.decisions.truncate(f.scenarios.len());
                            save(&path, &f);
                            let alone = matches!(exec_file_fresh(&path, "strict"), Ok(o2) if o2.violation.as_ref().map(|x| x.same_class(v)).unwrap_or(false));
                            if alone {
                                start_minimise_budget();
                                out.violations.push(minimise_and_store(f, &path, &b.replay_dir, &b.work_dir, None));
                            } else {
                                // needs what earlier worlds of its chain left on disk: the chain is the replay unit
                                let first = (w / CHAIN) * CHAIN;
                                let chain = ChainFile {
                                    property: "C13".into(),
                                    engine: "Wchain".into(),
                                    profile: profile_name(),
                                    verif_seed: b.verif_seed,
                                    first_world: first,
                                    worlds: (first..=w).map(|x| world_file(&g, &tables, b.verif_seed, x).0).collect(),
                                    violation: Some(v.clone()),
                                    note: "worlds of one chain, each in a fresh process, sharing a temp directory; seeded disk faults between them".into(),
                                };
                                let cpath = format!("{}/C13-Wchain-{}-{}.json", b.replay_dir, profile_name(), w);
                                std::fs::write(&cpath, serde_json::to_string(&chain).unwrap()).expect("write chain file");
                                let confirmed = matches!(run_chain(&chain, &b.work_dir), Some((_, v2)) if v2.same_class(v));
                                out.violations.push(ViolationReport { replay: cpath, line: format!("{} (needs the files earlier processes of the chain left behind)", v.line()), minimised: false, replay_confirmed: confirmed, steps_before: 0, steps_after: 0, shrink_evals: 0 });
                            }
                        }
                    }
                }
            }
        }
    }
    out.orders_covered = orders.len() as u64;
    out.distinct_nontrivial = nontrivial.len() as u64;
    out.cross_world_groups = groups.len() as u64;
    out.cross_world_log_mismatch = groups.values().filter(|s| s.len() > 1).count() as u64;
    out.wall_s = t0.elapsed().as_secs_f64();
    if !b.out_path.is_empty() {
        std::fs::write(&b.out_path, serde_json::to_string_pretty(&out).unwrap()).expect("write worlds out");
    }
    out
}
