//! Replay files: the explicit, self-contained record of a violating run (scenario sequence,
//! decision lists, violation), exact re-execution in a fresh process, and minimisation.

use crate::ops::Op;
use crate::procs::run_child;
use crate::scenario::{Scenario, Start, Step};
use crate::sched::{run, RunOut, Schedule, Violation};
use serde::{Deserialize, Serialize};
use std::time::Duration;

#[derive(Clone, Debug, Serialize, Deserialize)]
pub struct ReplayFile {
    pub property: String,
    pub engine: String,
    pub verif_seed: u64,
    pub profile: String,
    /// scenarios executed one after the other in ONE fresh process (normally just one)
    pub scenarios: Vec<Scenario>,
    /// run-length encoded decision list per scenario: [thread, count]
    pub decisions: Vec<Vec<(u16, u32)>>,
    pub violation: Option<Violation>,
    pub minimised: bool,
    pub note: String,
    /// where in its batch the last scenario ran: (first index of the worker's range, own index,
    /// yields disabled) - lets the parent rebuild the whole in-process history if needed
    #[serde(default)]
    pub origin: Option<(u64, u64, bool)>,
}

pub fn rle(d: &[u16]) -> Vec<(u16, u32)> {
    let mut out: Vec<(u16, u32)> = Vec::new();
    for &x in d {
        match out.last_mut() {
            Some((t, n)) if *t == x => *n += 1,
            _ => out.push((x, 1)),
        }
    }
    out
}

pub fn unrle(d: &[(u16, u32)]) -> Vec<u16> {
    let mut out = Vec::new();
    for &(t, n) in d {
        for _ in 0..n {
            out.push(t);
        }
    }
    out
}

pub fn profile_name() -> String {
    // the driver names the build variant (e.g. "release+sync" for the auto-instrumented copy)
    if let Ok(t) = std::env::var("A5SIM_PROFILE_TAG") {
        if !t.is_empty() {
            return t;
        }
    }
    if cfg!(debug_assertions) {
        "debug".to_string()
    } else {
        "release".to_string()
    }
}

#[derive(Clone, Debug, Serialize, Deserialize)]
pub struct ExecOut {
    /// index of the scenario in which the violation occurred
    pub scenario_index: Option<usize>,
    pub violation: Option<Violation>,
    pub decisions: Vec<Vec<(u16, u32)>>,
    pub log_hashes: Vec<u64>,
    pub harness_error: Option<String>,
    pub trace: Vec<String>,
    #[serde(default)]
    pub schedule_exhausted: bool,
    /// merged statistics of all scenarios executed (worlds use this)
    #[serde(default)]
    pub stats: Option<crate::sched::RunStats>,
    #[serde(default)]
    pub sched_hashes: Vec<u64>,
}

/// Execute a replay file in THIS process (callers make sure the process is fresh).
pub fn exec_file_here(f: &ReplayFile, mode: &str, trace: bool) -> ExecOut {
    crate::ops::quiet_panics();
    let mut out = ExecOut { scenario_index: None, violation: None, decisions: Vec::new(), log_hashes: Vec::new(), harness_error: None, trace: Vec::new(), schedule_exhausted: false, stats: None, sched_hashes: Vec::new() };
    for (i, sc) in f.scenarios.iter().enumerate() {
        let list = f.decisions.get(i).map(|d| unrle(d)).unwrap_or_default();
        let schedule = match mode {
            "strict" => Schedule::Strict(list),
            "sequential" => Schedule::Lenient(Vec::new()),
            "seeded" => Schedule::Seeded,
            _ => Schedule::Lenient(list),
        };
        let r: RunOut = run(sc, schedule, trace);
        out.decisions.push(rle(&r.decisions));
        out.log_hashes.push(r.log_hash);
        out.sched_hashes.push(r.sched_hash);
        match out.stats.as_mut() {
            Some(s) => crate::batch::merge_stats(s, &r.stats),
            None => {
                let mut s = r.stats.clone();
                s.states.clear();
                s.transitions.clear();
                out.stats = Some(s);
            }
        }
        if trace {
            out.trace.push(format!("--- scenario {} (seed {})", i, sc.seed));
            out.trace.extend(r.trace);
        }
        if let Some(e) = r.harness_error {
            out.harness_error = Some(e);
            break;
        }
        out.schedule_exhausted |= r.schedule_exhausted;
        if let Some(v) = r.violation {
            out.scenario_index = Some(i);
            out.violation = Some(v);
            break;
        }
    }
    out
}

pub const EXEC_TIMEOUT: Duration = Duration::from_secs(300);
pub const EXEC_VMEM_KB: u64 = 40_000_000; // address space, not memory: simulated threads may have 256 MiB stacks

/// Execute a replay file in a fresh child process.
pub fn exec_file_fresh(path: &str, mode: &str) -> Result<ExecOut, String> {
    let (status, out) = run_child(&["exec-file", path, "--mode", mode], "", EXEC_TIMEOUT, EXEC_VMEM_KB);
    for l in out.lines() {
        if let Some(j) = l.strip_prefix("EXECOUT ") {
            return serde_json::from_str(j).map_err(|e| e.to_string());
        }
    }
    Err(format!("child gave no result (status {:?})", status))
}

pub fn save(path: &str, f: &ReplayFile) {
    let s = serde_json::to_string(f).expect("replay to json");
    std::fs::write(path, s).expect("write replay file");
}

pub fn load(path: &str) -> Result<ReplayFile, String> {
    let s = std::fs::read_to_string(path).map_err(|e| format!("{}: {}", path, e))?;
    serde_json::from_str(&s).map_err(|e| format!("{}: {}", path, e))
}

// ---------------------------------------------------------------------------------------------
// minimisation

fn remove_thread(sc: &Scenario, j: usize) -> Scenario {
    let mut s = sc.clone();
    s.threads.remove(j);
    for t in s.threads.iter_mut() {
        t.start = match &t.start {
            Start::AfterExit(k) if *k as usize == j => Start::AtBegin,
            Start::AfterExit(k) if *k as usize > j => Start::AfterExit(*k - 1),
            other => other.clone(),
        };
    }
    s
}

fn prune_ops(sc: &Scenario) -> Scenario {
    let mut s = sc.clone();
    let mut used: Vec<u32> = Vec::new();
    for t in &s.threads {
        for st in &t.steps {
            if !used.contains(&st.op) {
                used.push(st.op);
            }
        }
        for o in &t.exit_ops {
            if !used.contains(o) {
                used.push(*o);
            }
        }
    }
    let remap = |o: u32| used.iter().position(|x| *x == o).unwrap() as u32;
    for t in s.threads.iter_mut() {
        for st in t.steps.iter_mut() {
            st.op = remap(st.op);
        }
        for o in t.exit_ops.iter_mut() {
            *o = remap(*o);
        }
    }
    s.ops = used.iter().map(|i| sc.ops[*i as usize].clone()).collect();
    s.expected = used.iter().map(|i| sc.expected[*i as usize].clone()).collect();
    s.foot = used.iter().map(|i| sc.foot[*i as usize]).collect();
    s.poison = used.iter().map(|i| sc.poison[*i as usize].clone()).collect();
    s
}

pub struct Shrinker {
    pub target: Violation,
    pub tmp_path: String,
    pub evals: u32,
    pub log: Vec<String>,
    /// the violation needs a particular interleaving (the sequential schedule does not show it):
    /// candidates are then also re-searched under fresh schedule seeds
    pub schedule_sensitive: bool,
    /// minimisation stops (keeping the best file so far) when this instant has passed
    pub deadline: Option<std::time::Instant>,
}

const RESEARCH_SALTS: u64 = 24;

impl Shrinker {
    /// Does the candidate still show the same violation class, in a fresh process? Tries the
    /// sequential schedule first, then the inherited decision list (leniently).
    fn test(&mut self, cand: &ReplayFile) -> Option<ReplayFile> {
        if let Some(d) = self.deadline {
            if std::time::Instant::now() > d {
                return None;
            }
        }
        let last = cand.scenarios.len() - 1;
        let mut attempts: Vec<(&str, u64)> = vec![("sequential", 0), ("lenient", 0)];
        if self.schedule_sensitive && cand.scenarios[last].threads.len() >= 2 {
            for k in 1..=RESEARCH_SALTS {
                attempts.push(("seeded", k));
            }
        }
        for (mode, salt) in attempts {
            self.evals += 1;
            let mut c = cand.clone();
            if mode == "seeded" {
                c.scenarios[last].sched_salt = salt;
            }
            save(&self.tmp_path, &c);
            if let Ok(o) = exec_file_fresh(&self.tmp_path, mode) {
                if let Some(v) = &o.violation {
                    if v.same_class(&self.target) && o.scenario_index == Some(last) {
                        let mut ok = c.clone();
                        ok.decisions = o.decisions.clone();
                        ok.violation = Some(v.clone());
                        return Some(ok);
                    }
                }
            }
        }
        None
    }

    pub fn shrink(&mut self, start: ReplayFile) -> ReplayFile {
        if self.target.invariant == "I5" {
            // every reproduction of "does not return" costs a full stall timeout: shorten it for
            // the candidate runs (the final confirmation uses the normal timeout again)
            crate::procs::CHILD_ENV.with(|e| e.borrow_mut().push(("A5SIM_STALL_SECS".into(), "5".into())));
        }
        let r = self.shrink_inner(start);
        crate::procs::CHILD_ENV.with(|e| e.borrow_mut().clear());
        r
    }

    fn shrink_inner(&mut self, start: ReplayFile) -> ReplayFile {
        let mut best = start;
        {
            // does the plain sequential schedule (each thread runs to its end) already show it?
            self.evals += 1;
            save(&self.tmp_path, &best);
            let seq_ok = matches!(exec_file_fresh(&self.tmp_path, "sequential"), Ok(o) if o.violation.as_ref().map(|v| v.same_class(&self.target)).unwrap_or(false));
            self.schedule_sensitive = !seq_ok;
        }
        // 0. only the last scenario, if that is enough
        if best.scenarios.len() > 1 {
            let mut c = best.clone();
            c.scenarios = vec![best.scenarios.last().unwrap().clone()];
            c.decisions = vec![best.decisions.last().cloned().unwrap_or_default()];
            if let Some(ok) = self.test(&c) {
                best = ok;
            } else {
                // drop earlier scenarios, ddmin style (chunks halving down to single scenarios);
                // the last scenario always stays
                let mut chunk = ((best.scenarios.len() - 1) / 2).max(1);
                loop {
                    let mut i = 0;
                    while i + 1 < best.scenarios.len() {
                        let hi = (i + chunk).min(best.scenarios.len() - 1);
                        let mut c = best.clone();
                        c.scenarios.drain(i..hi);
                        let dhi = hi.min(c.decisions.len());
                        if i < dhi {
                            c.decisions.drain(i..dhi);
                        }
                        match self.test(&c) {
                            Some(ok) => best = ok,
                            None => i += chunk,
                        }
                    }
                    if chunk == 1 {
                        break;
                    }
                    chunk = (chunk / 2).max(1);
                }
            }
        }
        let last = best.scenarios.len() - 1;
        // 1. cheap global simplifications
        for what in ["yield_off", "rekey_off", "start_at_begin", "hashkey_zero", "no_clock_jumps", "no_disk_faults", "no_write_faults", "no_exit_ops", "default_stacks", "all_cpus"] {
            let mut c = best.clone();
            {
                let sc = &mut c.scenarios[last];
                match what {
                    "yield_off" => {
                        sc.yield_mask = 0;
                        sc.preempt_pct = 0;
                    }
                    "rekey_off" => {
                        for t in sc.threads.iter_mut() {
                            for s in t.steps.iter_mut() {
                                s.rekey = None;
                            }
                        }
                    }
                    "start_at_begin" => {
                        for t in sc.threads.iter_mut() {
                            t.start = Start::AtBegin;
                        }
                    }
                    "no_clock_jumps" => {
                        for t in sc.threads.iter_mut() {
                            for s in t.steps.iter_mut() {
                                s.clock_jump_ms = 0;
                            }
                        }
                    }
                    "no_disk_faults" => {
                        for t in sc.threads.iter_mut() {
                            for s in t.steps.iter_mut() {
                                s.disk_fault = 0;
                            }
                        }
                    }
                    "no_write_faults" => {
                        sc.fs_fault = 0;
                    }
                    "no_exit_ops" => {
                        for t in sc.threads.iter_mut() {
                            t.exit_ops.clear();
                        }
                    }
                    "all_cpus" => {
                        for t in sc.threads.iter_mut() {
                            t.cpus = 0;
                        }
                    }
                    "default_stacks" => {
                        for t in sc.threads.iter_mut() {
                            t.stack_kb = 0;
                        }
                    }
                    _ => {
                        for t in sc.threads.iter_mut() {
                            t.hash_key = 0;
                        }
                    }
                }
            }
            if let Some(ok) = self.test(&c) {
                self.log.push(format!("accepted {}", what));
                best = ok;
            }
        }
        // 2. drop whole threads
        let mut j = 0;
        while best.scenarios[last].threads.len() > 1 && j < best.scenarios[last].threads.len() {
            let mut c = best.clone();
            c.scenarios[last] = remove_thread(&best.scenarios[last], j);
            match self.test(&c) {
                Some(ok) => {
                    self.log.push(format!("dropped thread {}", j));
                    best = ok;
                }
                None => j += 1,
            }
        }
        // 3. drop steps, ddmin style (chunks halving down to single steps)
        for t in 0..best.scenarios[last].threads.len() {
            let mut chunk = (best.scenarios[last].threads[t].steps.len() / 2).max(1);
            loop {
                let mut i = 0;
                while i < best.scenarios[last].threads[t].steps.len() {
                    let len = best.scenarios[last].threads[t].steps.len();
                    let hi = (i + chunk).min(len);
                    if hi - i == len && best.scenarios[last].threads.len() == 1 {
                        i += chunk;
                        continue;
                    }
                    let mut c = best.clone();
                    c.scenarios[last].threads[t].steps.drain(i..hi);
                    match self.test(&c) {
                        Some(ok) => best = ok,
                        None => i += chunk,
                    }
                }
                if chunk == 1 {
                    break;
                }
                chunk = (chunk / 2).max(1);
            }
        }
        // 3b. threads that became empty
        let mut j = 0;
        while best.scenarios[last].threads.len() > 1 && j < best.scenarios[last].threads.len() {
            if best.scenarios[last].threads[j].steps.is_empty() {
                let mut c = best.clone();
                c.scenarios[last] = remove_thread(&best.scenarios[last], j);
                if let Some(ok) = self.test(&c) {
                    best = ok;
                    continue;
                }
            }
            j += 1;
        }
        // 3c. yield sites: switch off every site the violation does not need
        if best.scenarios[last].yield_mask != 0 {
            for bit in 0..32u32 {
                if best.scenarios[last].yield_mask & (1 << bit) == 0 {
                    continue;
                }
                let mut c = best.clone();
                c.scenarios[last].yield_mask &= !(1 << bit);
                if let Some(ok) = self.test(&c) {
                    best = ok;
                }
            }
        }
        // 4. repeats: 1 if possible, else binary search for the smallest count that still fails
        for t in 0..best.scenarios[last].threads.len() {
            for s in 0..best.scenarios[last].threads[t].steps.len() {
                let r = best.scenarios[last].threads[t].steps[s].repeat;
                if r <= 1 {
                    continue;
                }
                let mut c = best.clone();
                c.scenarios[last].threads[t].steps[s].repeat = 1;
                if let Some(ok) = self.test(&c) {
                    best = ok;
                    continue;
                }
                let (mut lo, mut hi) = (1u32, r); // lo does not reproduce, hi does
                while hi - lo > 1 {
                    let mid = lo + (hi - lo) / 2;
                    let mut c = best.clone();
                    c.scenarios[last].threads[t].steps[s].repeat = mid;
                    match self.test(&c) {
                        Some(ok) => {
                            best = ok;
                            hi = mid;
                        }
                        None => lo = mid,
                    }
                }
            }
        }
        // 5. argument simplification on the remaining ops (expected outcomes must be recomputed)
        best = self.simplify_args(best);
        // 6. cosmetic: drop unused ops from the table
        let mut c = best.clone();
        c.scenarios[last] = prune_ops(&best.scenarios[last]);
        if let Some(ok) = self.test(&c) {
            best = ok;
        }
        best.minimised = true;
        best
    }

    fn simplify_args(&mut self, best: ReplayFile) -> ReplayFile {
        let mut best = best;
        let last = best.scenarios.len() - 1;
        let n_ops = best.scenarios[last].ops.len();
        for i in 0..n_ops {
            let used = best.scenarios[last].threads.iter().any(|t| t.steps.iter().any(|s: &Step| s.op as usize == i));
            if !used {
                continue;
            }
            for cand_op in simpler_ops(&best.scenarios[last].ops[i]) {
                let r = crate::procs::pristine_ref(&cand_op);
                let exp = match (r.status.as_str(), r.outcome) {
                    ("ok", Some(o)) => o,
                    _ => continue,
                };
                let mut c = best.clone();
                c.scenarios[last].ops[i] = cand_op.clone();
                c.scenarios[last].expected[i] = exp;
                c.scenarios[last].foot[i] = r.foot;
                // the violating op itself may have been the one simplified: compare classes on
                // the invariant only in that case
                let was_target = best.scenarios[last].ops[i].reference_form() == self.target.op.reference_form();
                if was_target {
                    let saved = self.target.clone();
                    self.target.op = cand_op.clone();
                    self.target.expected = c.scenarios[last].expected[i].clone();
                    match self.test(&c) {
                        Some(ok) => {
                            best = ok;
                            break;
                        }
                        None => self.target = saved,
                    }
                } else if let Some(ok) = self.test(&c) {
                    best = ok;
                    break;
                }
            }
        }
        best
    }
}

/// A few strictly "simpler" variants of an op (rounder coordinates, lower resolution).
fn simpler_ops(op: &Op) -> Vec<Op> {
    use crate::ops::F;
    let round = |x: F, digits: i32| -> F {
        let m = 10f64.powi(digits);
        let r = (x.v() * m).round() / m;
        if r.is_finite() { F::of(r) } else { x }
    };
    let mut v = Vec::new();
    match op {
        Op::Inverse { t, x, y, origin } => {
            for d in [1, 2, 4] {
                let c = Op::Inverse { t: *t, x: round(*x, d), y: round(*y, d), origin: *origin };
                if c != *op {
                    v.push(c);
                }
            }
        }
        Op::Forward { t, theta, phi, origin } => {
            for d in [1, 2, 4] {
                let c = Op::Forward { t: *t, theta: round(*theta, d), phi: round(*phi, d), origin: *origin };
                if c != *op {
                    v.push(c);
                }
            }
        }
        Op::LonLatToCell { lon, lat, res } => {
            for d in [0, 2] {
                let c = Op::LonLatToCell { lon: round(*lon, d), lat: round(*lat, d), res: *res };
                if c != *op {
                    v.push(c);
                }
            }
            for r in [0, 2, 5] {
                if r < *res {
                    v.push(Op::LonLatToCell { lon: *lon, lat: *lat, res: r });
                }
            }
        }
        Op::Compact { cells } if cells.len() > 1 => {
            v.push(Op::Compact { cells: cells[..cells.len() / 2].to_vec() });
            v.push(Op::Compact { cells: cells[cells.len() / 2..].to_vec() });
        }
        _ => {}
    }
    v
}
