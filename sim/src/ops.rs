//! Operations: one public call of a5 plus fully concrete arguments, and the exact encoding of
//! its outcome. Every f64 travels as its 64-bit pattern, so -0.0, NaN payloads and last-ulp
//! differences count.

use a5::coordinate_systems::{Cartesian, Face, LonLat, Polar, Radians, Spherical, IJ};
use a5::core::cell::{a5cell_contains_point, get_pentagon, CellToBoundaryOptions};
use a5::core::hilbert::{ij_to_s, s_to_anchor, Orientation};
use a5::core::utils::A5Cell;
use a5::geometry::{PentagonShape, SphericalPolygonShape};
use a5::projections::{AuthalicProjection, DodecahedronProjection, CRS};
use serde::{Deserialize, Deserializer, Serialize, Serializer};
use std::panic::{catch_unwind, AssertUnwindSafe};
use std::sync::Mutex;

/// f64 carried as its bit pattern.
#[derive(Clone, Copy, PartialEq, Eq, Hash, Debug)]
pub struct F(pub u64);

impl F {
    pub fn of(x: f64) -> F {
        F(x.to_bits())
    }
    pub fn v(self) -> f64 {
        f64::from_bits(self.0)
    }
}
impl Serialize for F {
    fn serialize<S: Serializer>(&self, s: S) -> Result<S::Ok, S::Error> {
        s.serialize_u64(self.0)
    }
}
impl<'de> Deserialize<'de> for F {
    fn deserialize<D: Deserializer<'de>>(d: D) -> Result<F, D::Error> {
        Ok(F(u64::deserialize(d)?))
    }
}

#[derive(Clone, Copy, PartialEq, Eq, Hash, Debug, Serialize, Deserialize)]
pub enum Target {
    /// the calling thread's projection (`get_thread_local()`)
    Tl,
    /// a brand-new `DodecahedronProjection::new()` used once
    Fresh,
    /// scenario-owned explicit instance k, handed between simulated threads
    Inst(u8),
}

#[derive(Clone, PartialEq, Eq, Hash, Debug, Serialize, Deserialize)]
pub enum Op {
    // ---- re-exported top-level API
    LonLatToCell { lon: F, lat: F, res: i32 },
    CellToLonLat { cell: u64 },
    CellToBoundary { cell: u64, closed: bool, segments: Option<i32> },
    CellToBoundaryDefault { cell: u64 },
    CellToChildren { cell: u64, res: Option<i32> },
    CellToParent { cell: u64, res: Option<i32> },
    GetRes0Cells,
    GetResolution { cell: u64 },
    Compact { cells: Vec<u64> },
    Uncompact { cells: Vec<u64>, res: i32 },
    CellArea { res: i32 },
    GetNumCells { res: i32 },
    HexToU64 { s: String },
    U64ToHex { v: u64 },
    // ---- module-level public functions (each touches at most one lazy table where noted)
    Serialize { origin: u8, segment: u32, s: u64, res: i32 }, // ORIGINS
    Deserialize { cell: u64 },                                 // ORIGINS (res >= 0)
    OriginsDigest,                                             // ORIGINS
    FindNearestOrigin { theta: F, phi: F },                    // ORIGINS
    QuintantToSegment { quintant: u32, origin: u8 },           // ORIGINS
    SegmentToQuintant { segment: u32, origin: u8 },            // ORIGINS
    PentagonDigest,                                            // PENTAGON_CONSTANTS
    FaceVertices,                                              // PENTAGON_CONSTANTS
    QuintantVertices { q: u32 },                               // PENTAGON_CONSTANTS
    QuintantPolar { rho: F, gamma: F },
    FaceToIj { x: F, y: F },                                   // PENTAGON_CONSTANTS
    IjToFace { x: F, y: F },                                   // PENTAGON_CONSTANTS
    IjToS { x: F, y: F, res: u32, orient: u8 },                // PATTERN_(FLIPPED_)REVERSED
    SToAnchor { s: u64, res: u32, orient: u8 },
    PentagonVertices { res: i32, quintant: u32, s: u64, ares: u32, orient: u8 }, // PENTAGON_CONSTANTS
    GetPentagon { origin: u8, segment: u32, s: u64, res: i32 },
    ContainsPoint { origin: u8, segment: u32, s: u64, res: i32, lon: F, lat: F },
    // ---- projection level
    Forward { t: Target, theta: F, phi: F, origin: u8 },
    Inverse { t: Target, x: F, y: F, origin: u8 },
    CrsVertex { inst: Option<u8>, x: F, y: F, z: F },
    // ---- stateless controls
    Authalic { fwd: bool, phi: F },
    FromLonLat { lon: F, lat: F },
    ToLonLat { theta: F, phi: F },
    NormalizeLongitudes { pts: Vec<(F, F)> },
    SphPolyArea { pts: Vec<(F, F, F)> },
    // ---- low-level public functions (stateless today; a change could give them state)
    PentagonShapeOps { verts: Vec<(F, F)>, px: F, py: F, k: F },
    VectorOps { a: (F, F, F), b: (F, F, F), c: (F, F, F), t: F },
    SphTriShape { pts: Vec<(F, F, F)>, n: u32, closed: bool, t: F },
    CoordXform { x: F, y: F, z: F },
    Barycentric { p: (F, F), tri: Vec<(F, F)> },
    Gnomonic { a: F, b: F },
    HilbertLow { n: u8, f0: bool, f1: bool, x: F, y: F, s: u64, res: u32, invert_j: bool, flip_ij: bool },
    SerialLow { cell: u64, res: i32, res2: i32 },
    OriginLow { theta: F, phi: F, origin: u8 },
    Quaternions,
    /// State pump: pushes every descendant of `root` at `depth` levels below it (4^depth distinct
    /// cells) through one function - f = 0 cell_to_lonlat, 1 cell_to_boundary(segments 1), 2
    /// cell_to_parent, 3 deserialize + serialize, 4 lonlat_to_cell of the centre, 5 get_resolution +
    /// u64_to_hex + hex_to_u64 - and returns the count and a digest. Its own outcome equals its
    /// reference by construction; it exists to fill caches with tens of thousands of distinct
    /// keys before ordinary calls probe the early ones.
    Pump { f: u8, root: u64, depth: u8 },
}

#[derive(Clone, PartialEq, Eq, Hash, Debug, Serialize, Deserialize)]
pub enum Outcome {
    Ok(Vec<u64>),
    Err(String),
    Panic(String),
}

impl Outcome {
    pub fn class(&self) -> &'static str {
        match self {
            Outcome::Ok(_) => "ok",
            Outcome::Err(_) => "err",
            Outcome::Panic(_) => "panic",
        }
    }
    pub fn hash64(&self) -> u64 {
        let mut h = crate::rng::H64::new();
        match self {
            Outcome::Ok(v) => {
                h.u(1);
                for x in v {
                    h.u(*x);
                }
                h.u(v.len() as u64);
            }
            Outcome::Err(s) => {
                h.u(2);
                h.bytes(s.as_bytes());
            }
            Outcome::Panic(s) => {
                h.u(3);
                h.bytes(s.as_bytes());
            }
        }
        h.0
    }
    /// Short human-readable rendering (for VIOLATION lines and samples).
    pub fn brief(&self) -> String {
        match self {
            Outcome::Ok(v) => {
                let shown: Vec<String> = v.iter().take(6).map(|x| format!("{:#x}", x)).collect();
                format!("Ok[{}{}] (n={})", shown.join(","), if v.len() > 6 { ",.." } else { "" }, v.len())
            }
            Outcome::Err(s) => format!("Err({:?})", s),
            Outcome::Panic(s) => format!("Panic({:?})", s),
        }
    }
}

/// Explicit instances a scenario owns. Created lazily (so creation lies inside the history).
pub struct Env {
    pub insts: Vec<Mutex<Option<DodecahedronProjection>>>,
    pub crs: Vec<Mutex<Option<CRS>>>,
}

impl Env {
    pub fn new(n_inst: usize, n_crs: usize) -> Env {
        Env {
            insts: (0..n_inst).map(|_| Mutex::new(None)).collect(),
            crs: (0..n_crs).map(|_| Mutex::new(None)).collect(),
        }
    }
}

pub const N_ORIENT: u8 = 6;

pub fn orient(o: u8) -> Orientation {
    match o % N_ORIENT {
        0 => Orientation::UV,
        1 => Orientation::VU,
        2 => Orientation::UW,
        3 => Orientation::WU,
        4 => Orientation::VW,
        _ => Orientation::WV,
    }
}

fn orient_id(o: Orientation) -> u64 {
    match o {
        Orientation::UV => 0,
        Orientation::VU => 1,
        Orientation::UW => 2,
        Orientation::WU => 3,
        Orientation::VW => 4,
        Orientation::WV => 5,
    }
}

fn b(x: f64) -> u64 {
    x.to_bits()
}

fn shape_bits(p: &PentagonShape) -> Vec<u64> {
    let mut v = Vec::new();
    for f in p.get_vertices_vec() {
        v.push(b(f.x()));
        v.push(b(f.y()));
    }
    v
}

fn lonlat_bits(v: &[LonLat]) -> Vec<u64> {
    let mut out = Vec::with_capacity(2 * v.len());
    for p in v {
        out.push(b(p.longitude()));
        out.push(b(p.latitude()));
    }
    out
}

fn ok1(x: u64) -> Result<Vec<u64>, String> {
    Ok(vec![x])
}

fn cell_of(origin: u8, segment: u32, s: u64, res: i32) -> A5Cell {
    A5Cell { origin_id: origin, segment: segment as usize, s, resolution: res }
}

impl Op {
    pub fn kind(&self) -> &'static str {
        match self {
            Op::LonLatToCell { .. } => "lonlat_to_cell",
            Op::CellToLonLat { .. } => "cell_to_lonlat",
            Op::CellToBoundary { .. } => "cell_to_boundary",
            Op::CellToBoundaryDefault { .. } => "cell_to_boundary_default",
            Op::CellToChildren { .. } => "cell_to_children",
            Op::CellToParent { .. } => "cell_to_parent",
            Op::GetRes0Cells => "get_res0_cells",
            Op::GetResolution { .. } => "get_resolution",
            Op::Compact { .. } => "compact",
            Op::Uncompact { .. } => "uncompact",
            Op::CellArea { .. } => "cell_area",
            Op::GetNumCells { .. } => "get_num_cells",
            Op::HexToU64 { .. } => "hex_to_u64",
            Op::U64ToHex { .. } => "u64_to_hex",
            Op::Serialize { .. } => "serialize",
            Op::Deserialize { .. } => "deserialize",
            Op::OriginsDigest => "get_origins",
            Op::FindNearestOrigin { .. } => "find_nearest_origin",
            Op::QuintantToSegment { .. } => "quintant_to_segment",
            Op::SegmentToQuintant { .. } => "segment_to_quintant",
            Op::PentagonDigest => "pentagon_constants",
            Op::FaceVertices => "get_face_vertices",
            Op::QuintantVertices { .. } => "get_quintant_vertices",
            Op::QuintantPolar { .. } => "get_quintant_polar",
            Op::FaceToIj { .. } => "face_to_ij",
            Op::IjToFace { .. } => "ij_to_face",
            Op::IjToS { .. } => "ij_to_s",
            Op::SToAnchor { .. } => "s_to_anchor",
            Op::PentagonVertices { .. } => "get_pentagon_vertices",
            Op::GetPentagon { .. } => "get_pentagon",
            Op::ContainsPoint { .. } => "a5cell_contains_point",
            Op::Forward { t: Target::Tl, .. } => "tl_forward",
            Op::Forward { t: Target::Fresh, .. } => "fresh_forward",
            Op::Forward { t: Target::Inst(_), .. } => "inst_forward",
            Op::Inverse { t: Target::Tl, .. } => "tl_inverse",
            Op::Inverse { t: Target::Fresh, .. } => "fresh_inverse",
            Op::Inverse { t: Target::Inst(_), .. } => "inst_inverse",
            Op::CrsVertex { inst: None, .. } => "fresh_crs_get_vertex",
            Op::CrsVertex { inst: Some(_), .. } => "inst_crs_get_vertex",
            Op::Authalic { .. } => "authalic",
            Op::FromLonLat { .. } => "from_lon_lat",
            Op::ToLonLat { .. } => "to_lon_lat",
            Op::NormalizeLongitudes { .. } => "normalize_longitudes",
            Op::SphPolyArea { .. } => "spherical_polygon_area",
            Op::PentagonShapeOps { .. } => "pentagon_shape_methods",
            Op::VectorOps { .. } => "vector_utils",
            Op::SphTriShape { .. } => "spherical_triangle_shape",
            Op::CoordXform { .. } => "coordinate_transforms_low",
            Op::Barycentric { .. } => "barycentric",
            Op::Gnomonic { .. } => "gnomonic",
            Op::HilbertLow { .. } => "hilbert_low",
            Op::SerialLow { .. } => "serialization_low",
            Op::OriginLow { .. } => "origin_low",
            Op::Quaternions => "quaternions_const",
            Op::Pump { .. } => "pump_distinct_cells",
        }
    }

    /// Rough, purely static cost estimate in microseconds (warm). Used to decide which ops may be
    /// repeated hundreds of times; deliberately NOT measured, so that scenario generation stays
    /// a function of the seed.
    pub fn est_cost_us(&self) -> u32 {
        match self {
            Op::LonLatToCell { res, .. } => {
                if *res < 2 {
                    5
                } else {
                    70
                }
            }
            Op::CellToBoundaryDefault { cell } | Op::CellToBoundary { cell, segments: None, .. } => {
                let r = a5::get_resolution(*cell);
                let seg = 1u32 << (6 - r.clamp(0, 6)) as u32;
                5 + seg * 5
            }
            Op::CellToBoundary { segments: Some(n), .. } => 5 + (*n).clamp(1, 1000) as u32 * 5,
            Op::CellToChildren { cell, res } => {
                let r = a5::get_resolution(*cell);
                let d = (res.unwrap_or(r + 1) - r).clamp(0, 10) as u32;
                2 + (1u32 << (2 * d)) / 8
            }
            Op::Compact { cells } => 5 + cells.len() as u32 / 4,
            Op::Uncompact { cells, res } => {
                let mut c: u64 = 5;
                for x in cells.iter().take(64) {
                    let d = (*res - a5::get_resolution(*x)).clamp(0, 12) as u32;
                    c += (1u64 << (2 * d)) / 8 + 1;
                }
                c.min(1_000_000) as u32
            }
            Op::ContainsPoint { .. } | Op::GetPentagon { .. } | Op::CellToLonLat { .. } => 5,
            Op::Forward { t: Target::Fresh, .. } | Op::Inverse { t: Target::Fresh, .. } | Op::CrsVertex { inst: None, .. } => 60,
            Op::SphTriShape { .. } | Op::PentagonShapeOps { .. } | Op::NormalizeLongitudes { .. } => 8,
            Op::OriginsDigest | Op::PentagonDigest => 3,
            Op::Pump { depth, .. } => (1u32 << (2 * (*depth).min(10) as u32)) * 3,
            _ => 2,
        }
    }

    /// Calls with very large results: executed without yield sites (hundreds of thousands of
    /// scheduling points inside one call would only slow the run down) and kept out of the
    /// contention and repetition modes.
    pub fn is_big(&self) -> bool {
        self.est_cost_us() > 2000
    }

    /// Calls that would hit a yield site hundreds of thousands of times (one per produced child
    /// id): executed with the calling thread's yield sites off.
    pub fn suppress_yields(&self) -> bool {
        matches!(self, Op::CellToChildren { .. } | Op::Uncompact { .. } | Op::Pump { .. }) && self.is_big()
    }

    /// Does the call go through the calling thread's projection memo?
    pub fn uses_tl(&self) -> bool {
        matches!(
            self,
            Op::LonLatToCell { .. }
                | Op::CellToLonLat { .. }
                | Op::CellToBoundary { .. }
                | Op::CellToBoundaryDefault { .. }
                | Op::ContainsPoint { .. }
                | Op::Forward { t: Target::Tl, .. }
                | Op::Inverse { t: Target::Tl, .. }
        )
    }

    /// Is this op executed on a scenario-owned explicit instance?
    pub fn uses_inst(&self) -> bool {
        matches!(
            self,
            Op::Forward { t: Target::Inst(_), .. }
                | Op::Inverse { t: Target::Inst(_), .. }
                | Op::CrsVertex { inst: Some(_), .. }
        )
    }

    /// The history-free form whose outcome is this op's reference: an explicit instance with
    /// a past is replaced by a brand-new instance.
    pub fn reference_form(&self) -> Op {
        match self {
            Op::Forward { t: Target::Inst(_), theta, phi, origin } => {
                Op::Forward { t: Target::Fresh, theta: *theta, phi: *phi, origin: *origin }
            }
            Op::Inverse { t: Target::Inst(_), x, y, origin } => {
                Op::Inverse { t: Target::Fresh, x: *x, y: *y, origin: *origin }
            }
            Op::CrsVertex { inst: Some(_), x, y, z } => Op::CrsVertex { inst: None, x: *x, y: *y, z: *z },
            other => other.clone(),
        }
    }

    /// Same arguments on another target (used to cross-check Tl against Fresh references).
    pub fn with_target(&self, nt: Target) -> Option<Op> {
        match self {
            Op::Forward { theta, phi, origin, .. } => {
                Some(Op::Forward { t: nt, theta: *theta, phi: *phi, origin: *origin })
            }
            Op::Inverse { x, y, origin, .. } => Some(Op::Inverse { t: nt, x: *x, y: *y, origin: *origin }),
            _ => None,
        }
    }

    pub fn key(&self) -> String {
        serde_json::to_string(self).expect("op to json")
    }

    /// Human-readable one-liner with decoded floats.
    pub fn describe(&self) -> String {
        match self {
            Op::LonLatToCell { lon, lat, res } => format!("lonlat_to_cell(({:?},{:?}), {})", lon.v(), lat.v(), res),
            Op::CellToLonLat { cell } => format!("cell_to_lonlat({:#x})", cell),
            Op::CellToBoundary { cell, closed, segments } => {
                format!("cell_to_boundary({:#x}, closed={}, segments={:?})", cell, closed, segments)
            }
            Op::CellToBoundaryDefault { cell } => format!("cell_to_boundary({:#x}, None)", cell),
            Op::CellToChildren { cell, res } => format!("cell_to_children({:#x}, {:?})", cell, res),
            Op::CellToParent { cell, res } => format!("cell_to_parent({:#x}, {:?})", cell, res),
            Op::GetResolution { cell } => format!("get_resolution({:#x})", cell),
            Op::Compact { cells } => format!("compact([{} cells, first {:#x}])", cells.len(), cells.first().copied().unwrap_or(0)),
            Op::Uncompact { cells, res } => format!("uncompact([{} cells], {})", cells.len(), res),
            Op::Forward { t, theta, phi, origin } => {
                format!("{:?}.forward(theta={:?}, phi={:?}, origin={})", t, theta.v(), phi.v(), origin)
            }
            Op::Inverse { t, x, y, origin } => format!("{:?}.inverse(({:?},{:?}), origin={})", t, x.v(), y.v(), origin),
            Op::CrsVertex { inst, x, y, z } => format!("crs[{:?}].get_vertex(({:?},{:?},{:?}))", inst, x.v(), y.v(), z.v()),
            Op::ContainsPoint { origin, segment, s, res, lon, lat } => format!(
                "a5cell_contains_point(cell{{o={},seg={},s={},r={}}}, ({:?},{:?}))",
                origin, segment, s, res, lon.v(), lat.v()
            ),
            Op::IjToS { x, y, res, orient } => format!("ij_to_s(({:?},{:?}), {}, orient={})", x.v(), y.v(), res, orient),
            Op::FindNearestOrigin { theta, phi } => format!("find_nearest_origin(theta={:?}, phi={:?})", theta.v(), phi.v()),
            other => format!("{:?}", other),
        }
    }
}

fn run_forward(p: &mut DodecahedronProjection, theta: F, phi: F, origin: u8) -> Result<Vec<u64>, String> {
    let sp = Spherical::new(Radians::new_unchecked(theta.v()), Radians::new_unchecked(phi.v()));
    let f = p.forward(sp, origin)?;
    Ok(vec![b(f.x()), b(f.y())])
}

fn run_inverse(p: &mut DodecahedronProjection, x: F, y: F, origin: u8) -> Result<Vec<u64>, String> {
    let s = p.inverse(Face::new(x.v(), y.v()), origin)?;
    Ok(vec![b(s.theta().get()), b(s.phi().get())])
}

fn run_crs(c: &mut CRS, x: F, y: F, z: F) -> Result<Vec<u64>, String> {
    let v = c.get_vertex(Cartesian::new(x.v(), y.v(), z.v()))?;
    Ok(vec![b(v.x()), b(v.y()), b(v.z())])
}

thread_local! {
    /// The caller's argument buffers. A real caller edits its buffer in place, or drops it and
    /// builds the next one in the block the allocator just got back: consecutive calls then see
    /// DIFFERENT contents at the SAME address. A harness that keeps every argument alive in its
    /// pool never produces that (seeded change c13-ak: a memo keyed by slice address, length,
    /// first and last element), so slice and string arguments are handed over in one recycled
    /// buffer per simulated thread.
    static ARG_CELLS: std::cell::RefCell<Vec<u64>> = std::cell::RefCell::new(Vec::with_capacity(1 << 17));
    static ARG_STR: std::cell::RefCell<String> = std::cell::RefCell::new(String::with_capacity(256));
}

fn with_cells<R>(cells: &[u64], f: impl FnOnce(&[u64]) -> R) -> R {
    let mut f = Some(f);
    let r = ARG_CELLS.try_with(|buf| match buf.try_borrow_mut() {
        Ok(mut buf) => {
            buf.clear();
            buf.extend_from_slice(cells);
            Some((f.take().unwrap())(&buf[..]))
        }
        Err(_) => None,
    });
    match r {
        Ok(Some(r)) => r,
        // thread-local already destroyed (calls from a destructor) or re-entered: plain slice
        _ => (f.take().unwrap())(cells),
    }
}

fn with_str<R>(text: &str, f: impl FnOnce(&str) -> R) -> R {
    let mut f = Some(f);
    let r = ARG_STR.try_with(|buf| match buf.try_borrow_mut() {
        Ok(mut buf) => {
            buf.clear();
            buf.push_str(text);
            Some((f.take().unwrap())(buf.as_str()))
        }
        Err(_) => None,
    });
    match r {
        Ok(Some(r)) => r,
        _ => (f.take().unwrap())(text),
    }
}

fn exec_inner(op: &Op, env: &Env) -> Result<Vec<u64>, String> {
    match op {
        Op::LonLatToCell { lon, lat, res } => ok1(a5::lonlat_to_cell(LonLat::new(lon.v(), lat.v()), *res)?),
        Op::CellToLonLat { cell } => {
            let p = a5::cell_to_lonlat(*cell)?;
            Ok(vec![b(p.longitude()), b(p.latitude())])
        }
        Op::CellToBoundary { cell, closed, segments } => {
            let o = CellToBoundaryOptions { closed_ring: *closed, segments: *segments };
            Ok(lonlat_bits(&a5::cell_to_boundary(*cell, Some(o))?))
        }
        Op::CellToBoundaryDefault { cell } => Ok(lonlat_bits(&a5::cell_to_boundary(*cell, None)?)),
        Op::CellToChildren { cell, res } => a5::cell_to_children(*cell, *res),
        Op::CellToParent { cell, res } => ok1(a5::cell_to_parent(*cell, *res)?),
        Op::GetRes0Cells => a5::get_res0_cells(),
        Op::GetResolution { cell } => ok1(a5::get_resolution(*cell) as i64 as u64),
        Op::Compact { cells } => with_cells(cells, |c| a5::compact(c)),
        Op::Uncompact { cells, res } => with_cells(cells, |c| a5::uncompact(c, *res)),
        Op::CellArea { res } => ok1(b(a5::cell_area(*res))),
        Op::GetNumCells { res } => ok1(a5::get_num_cells(*res)),
        Op::HexToU64 { s } => ok1(with_str(s, |t| a5::hex_to_u64(t))?),
        Op::U64ToHex { v } => Ok(a5::u64_to_hex(*v).bytes().map(|c| c as u64).collect()),
        Op::Serialize { origin, segment, s, res } => {
            ok1(a5::core::serialization::serialize(&cell_of(*origin, *segment, *s, *res))?)
        }
        Op::Deserialize { cell } => {
            let c = a5::core::serialization::deserialize(*cell)?;
            Ok(vec![c.origin_id as u64, c.segment as u64, c.s, c.resolution as i64 as u64])
        }
        Op::OriginsDigest => {
            let mut v = Vec::new();
            for o in a5::core::origin::get_origins() {
                v.push(o.id as u64);
                v.push(b(o.axis.theta().get()));
                v.push(b(o.axis.phi().get()));
                for q in o.quat.iter().chain(o.inverse_quat.iter()) {
                    v.push(b(*q));
                }
                v.push(b(o.angle.get()));
                for x in &o.orientation {
                    v.push(orient_id(*x));
                }
                v.push(o.first_quintant as u64);
            }
            Ok(v)
        }
        Op::FindNearestOrigin { theta, phi } => {
            let sp = Spherical::new(Radians::new_unchecked(theta.v()), Radians::new_unchecked(phi.v()));
            ok1(a5::core::origin::find_nearest_origin(sp).id as u64)
        }
        Op::QuintantToSegment { quintant, origin } => {
            let o = &a5::core::origin::get_origins()[*origin as usize];
            let (s, or) = a5::core::origin::quintant_to_segment(*quintant as usize, o);
            Ok(vec![s as u64, orient_id(or)])
        }
        Op::SegmentToQuintant { segment, origin } => {
            let o = &a5::core::origin::get_origins()[*origin as usize];
            let (q, or) = a5::core::origin::segment_to_quintant(*segment as usize, o);
            Ok(vec![q as u64, orient_id(or)])
        }
        Op::PentagonDigest => {
            use a5::core::pentagon as p;
            let mut v = Vec::new();
            for f in [p::a(), p::b(), p::c(), p::d(), p::e(), p::u(), p::v(), p::w()] {
                v.push(b(f.x()));
                v.push(b(f.y()));
            }
            v.push(b(p::v_angle().get()));
            for m in [p::basis(), p::basis_inverse()] {
                v.extend([b(m.m00), b(m.m01), b(m.m10), b(m.m11)]);
            }
            v.extend(shape_bits(p::pentagon()));
            v.extend(shape_bits(p::triangle()));
            Ok(v)
        }
        Op::FaceVertices => Ok(shape_bits(&a5::core::tiling::get_face_vertices())),
        Op::QuintantVertices { q } => Ok(shape_bits(&a5::core::tiling::get_quintant_vertices(*q as usize))),
        Op::QuintantPolar { rho, gamma } => {
            ok1(a5::core::tiling::get_quintant_polar(Polar::new(rho.v(), Radians::new_unchecked(gamma.v()))) as u64)
        }
        Op::FaceToIj { x, y } => {
            let ij = a5::core::coordinate_transforms::face_to_ij(Face::new(x.v(), y.v()));
            Ok(vec![b(ij.x()), b(ij.y())])
        }
        Op::IjToFace { x, y } => {
            let f = a5::core::coordinate_transforms::ij_to_face(IJ::new(x.v(), y.v()));
            Ok(vec![b(f.x()), b(f.y())])
        }
        Op::IjToS { x, y, res, orient: o } => ok1(ij_to_s(IJ::new(x.v(), y.v()), *res as usize, orient(*o))),
        Op::SToAnchor { s, res, orient: o } => {
            let a = s_to_anchor(*s, *res as usize, orient(*o));
            Ok(vec![a.k as u64, b(a.offset.x()), b(a.offset.y()), a.flips[0] as i64 as u64, a.flips[1] as i64 as u64])
        }
        Op::PentagonVertices { res, quintant, s, ares, orient: o } => {
            let a = s_to_anchor(*s, *ares as usize, orient(*o));
            Ok(shape_bits(&a5::core::tiling::get_pentagon_vertices(*res, *quintant as usize, &a)))
        }
        Op::GetPentagon { origin, segment, s, res } => {
            Ok(shape_bits(&get_pentagon(&cell_of(*origin, *segment, *s, *res))?))
        }
        Op::ContainsPoint { origin, segment, s, res, lon, lat } => {
            ok1(b(a5cell_contains_point(&cell_of(*origin, *segment, *s, *res), LonLat::new(lon.v(), lat.v()))?))
        }
        Op::Forward { t, theta, phi, origin } => match t {
            Target::Tl => run_forward(DodecahedronProjection::get_thread_local(), *theta, *phi, *origin),
            Target::Fresh => run_forward(&mut DodecahedronProjection::new()?, *theta, *phi, *origin),
            Target::Inst(k) => {
                let mut g = env.insts[*k as usize % env.insts.len()].lock().unwrap_or_else(|e| e.into_inner());
                if g.is_none() {
                    *g = Some(DodecahedronProjection::new()?);
                }
                run_forward(g.as_mut().unwrap(), *theta, *phi, *origin)
            }
        },
        Op::Inverse { t, x, y, origin } => match t {
            Target::Tl => run_inverse(DodecahedronProjection::get_thread_local(), *x, *y, *origin),
            Target::Fresh => run_inverse(&mut DodecahedronProjection::new()?, *x, *y, *origin),
            Target::Inst(k) => {
                let mut g = env.insts[*k as usize % env.insts.len()].lock().unwrap_or_else(|e| e.into_inner());
                if g.is_none() {
                    *g = Some(DodecahedronProjection::new()?);
                }
                run_inverse(g.as_mut().unwrap(), *x, *y, *origin)
            }
        },
        Op::CrsVertex { inst, x, y, z } => match inst {
            None => run_crs(&mut CRS::new()?, *x, *y, *z),
            Some(k) => {
                let mut g = env.crs[*k as usize % env.crs.len()].lock().unwrap_or_else(|e| e.into_inner());
                if g.is_none() {
                    *g = Some(CRS::new()?);
                }
                run_crs(g.as_mut().unwrap(), *x, *y, *z)
            }
        },
        Op::Authalic { fwd, phi } => {
            let a = AuthalicProjection;
            let r = if *fwd { a.forward(Radians::new_unchecked(phi.v())) } else { a.inverse(Radians::new_unchecked(phi.v())) };
            ok1(b(r.get()))
        }
        Op::FromLonLat { lon, lat } => {
            let s = a5::core::coordinate_transforms::from_lon_lat(LonLat::new(lon.v(), lat.v()));
            Ok(vec![b(s.theta().get()), b(s.phi().get())])
        }
        Op::ToLonLat { theta, phi } => {
            let sp = Spherical::new(Radians::new_unchecked(theta.v()), Radians::new_unchecked(phi.v()));
            let p = a5::core::coordinate_transforms::to_lon_lat(sp);
            Ok(vec![b(p.longitude()), b(p.latitude())])
        }
        Op::NormalizeLongitudes { pts } => {
            let c: Vec<LonLat> = pts.iter().map(|(x, y)| LonLat::new(x.v(), y.v())).collect();
            Ok(lonlat_bits(&a5::core::coordinate_transforms::normalize_longitudes(c)))
        }
        Op::SphPolyArea { pts } => {
            let v: Vec<Cartesian> = pts.iter().map(|(x, y, z)| Cartesian::new(x.v(), y.v(), z.v())).collect();
            let probe = v.first().copied().unwrap_or(Cartesian::new(0.0, 0.0, 1.0));
            let mut s = SphericalPolygonShape::new(v);
            let a1 = s.get_area().get();
            let a2 = s.get_area().get(); // second call answers from the object-local memo
            Ok(vec![b(a1), b(a2), b(s.contains_point(probe))])
        }
        Op::PentagonShapeOps { verts, px, py, k } => {
            if verts.len() != 5 && verts.len() != 3 {
                return Err("need 3 or 5 vertices".into());
            }
            let fs: Vec<Face> = verts.iter().map(|(x, y)| Face::new(x.v(), y.v())).collect();
            let mut sh = if fs.len() == 5 {
                PentagonShape::new([fs[0], fs[1], fs[2], fs[3], fs[4]])
            } else {
                PentagonShape::new_triangle([fs[0], fs[1], fs[2]])
            };
            let p = Face::new(px.v(), py.v());
            let mut v = vec![b(sh.get_area()), b(sh.get_center().x()), b(sh.get_center().y()), b(sh.contains_point(p))];
            v.extend(shape_bits(&sh.split_edges(3)));
            sh.scale(k.v());
            sh.rotate180();
            sh.reflect_y();
            sh.translate(p);
            v.extend(shape_bits(&sh));
            for f in sh.get_vertices() {
                v.push(b(f.x()));
            }
            Ok(v)
        }
        Op::VectorOps { a, b: bb, c, t } => {
            use a5::utils::vector as vu;
            let (a, bv, c) = (Cartesian::new(a.0.v(), a.1.v(), a.2.v()), Cartesian::new(bb.0.v(), bb.1.v(), bb.2.v()), Cartesian::new(c.0.v(), c.1.v(), c.2.v()));
            let s1 = vu::slerp(a, bv, t.v());
            let q = vu::quadruple_product(a, bv, c, s1);
            Ok(vec![
                b(vu::vector_difference(a, bv)),
                b(vu::triple_product(a, bv, c)),
                b(s1.x()), b(s1.y()), b(s1.z()),
                b(q.x()), b(q.y()), b(q.z()),
                b(vu::length(c)), b(vu::vec3_length(&a)), b(vu::vec3_distance(&a, &c)),
            ])
        }
        Op::SphTriShape { pts, n, closed, t } => {
            let v: Vec<Cartesian> = pts.iter().map(|(x, y, z)| Cartesian::new(x.v(), y.v(), z.v())).collect();
            let probe = v.first().copied().unwrap_or(Cartesian::new(0.0, 0.0, 1.0));
            let mut sh = a5::geometry::SphericalTriangleShape::new(v)?;
            let mut out = vec![b(sh.get_area().get()), b(sh.get_area().get()), b(sh.contains_point(probe))];
            let s1 = sh.slerp(t.v());
            out.extend([b(s1.x()), b(s1.y()), b(s1.z())]);
            let (p, q, r) = sh.get_transformed_vertices(t.v());
            out.extend([b(p.x()), b(q.y()), b(r.z())]);
            for c in sh.get_boundary((*n as usize).min(64), *closed) {
                out.extend([b(c.x()), b(c.y()), b(c.z())]);
            }
            Ok(out)
        }
        Op::CoordXform { x, y, z } => {
            use a5::core::coordinate_transforms as ct;
            let pol = ct::to_polar(Face::new(x.v(), y.v()));
            let fc = ct::to_face(pol);
            let sp = ct::to_spherical(Cartesian::new(x.v(), y.v(), z.v()));
            let ca = ct::to_cartesian(sp);
            let d = ct::rad_to_deg(Radians::new_unchecked(x.v()));
            let r = ct::deg_to_rad(d);
            let pg = pol.project_gnomonic();
            let ug = sp.unproject_gnomonic();
            Ok(vec![
                b(pol.rho()), b(pol.gamma().get()), b(fc.x()), b(fc.y()), b(sp.theta().get()), b(sp.phi().get()),
                b(ca.x()), b(ca.y()), b(ca.z()), b(d.get()), b(r.get()), b(pg.theta().get()), b(pg.phi().get()),
                b(ug.rho()), b(ug.gamma().get()), b(Radians::new(x.v()).get()), b(Radians::new_unchecked(y.v()).to_degrees().get()),
            ])
        }
        Op::Barycentric { p, tri } => {
            use a5::coordinate_systems::FaceTriangle;
            use a5::core::coordinate_transforms as ct;
            if tri.len() != 3 {
                return Err("need 3 vertices".into());
            }
            let t = FaceTriangle::new(Face::new(tri[0].0.v(), tri[0].1.v()), Face::new(tri[1].0.v(), tri[1].1.v()), Face::new(tri[2].0.v(), tri[2].1.v()));
            let bc = ct::face_to_barycentric(Face::new(p.0.v(), p.1.v()), t);
            let back = ct::barycentric_to_face(bc, t);
            Ok(vec![b(bc.u), b(bc.v), b(bc.w), b(back.x()), b(back.y()), bc.is_valid() as u64, bc.is_inside_triangle() as u64])
        }
        Op::Gnomonic { a, b: bb } => {
            let g = a5::projections::GnomonicProjection;
            let pol = g.forward(Spherical::new(Radians::new_unchecked(a.v()), Radians::new_unchecked(bb.v())));
            let sp = g.inverse(Polar::new(a.v().abs(), Radians::new_unchecked(bb.v())));
            Ok(vec![b(pol.rho()), b(pol.gamma().get()), b(sp.theta().get()), b(sp.phi().get())])
        }
        Op::HilbertLow { n, f0, f1, x, y, s, res, invert_j, flip_ij } => {
            use a5::coordinate_systems::KJ;
            use a5::core::hilbert as h;
            let flips = [if *f0 { h::YES } else { h::NO }, if *f1 { h::YES } else { h::NO }];
            let kj = h::quaternary_to_kj(*n % 4, flips);
            let fl = h::quaternary_to_flips(*n % 4);
            let ij = IJ::new(x.v(), y.v());
            let k2 = h::ij_to_kj(ij);
            let i2 = h::kj_to_ij(KJ::new(x.v(), y.v()));
            let an = h::s_to_anchor_internal(*s, (*res as usize).min(30), *invert_j, *flip_ij);
            let s2 = h::ij_to_s_internal(ij, *invert_j, *flip_ij, (*res as usize).min(30));
            Ok(vec![
                b(kj.x()), b(kj.y()), fl[0] as i64 as u64, fl[1] as i64 as u64, b(k2.x()), b(k2.y()), b(i2.x()), b(i2.y()),
                h::get_required_digits(IJ::new(x.v().abs(), y.v().abs())) as u64,
                h::ij_to_quaternary(ij, flips) as u64,
                an.k as u64, b(an.offset.x()), b(an.offset.y()), an.flips[0] as i64 as u64, an.flips[1] as i64 as u64, s2,
            ])
        }
        Op::SerialLow { cell, res, res2 } => {
            use a5::core::serialization as sz;
            Ok(vec![
                sz::is_first_child(*cell, None) as u64,
                sz::is_first_child(*cell, Some((*res).clamp(0, 30))) as u64,
                sz::get_stride((*res).clamp(0, 30)),
                a5::core::cell_info::get_num_children((*res).clamp(-1, 30), (*res2).clamp(-1, 30).min((*res).clamp(-1, 30) + 10)) as u64,
            ])
        }
        Op::OriginLow { theta, phi, origin } => {
            let sp = Spherical::new(Radians::new_unchecked(theta.v()), Radians::new_unchecked(phi.v()));
            let o = &a5::core::origin::get_origins()[*origin as usize % 12];
            Ok(vec![a5::core::origin::is_nearest_origin(sp, o) as u64, b(a5::core::origin::haversine(sp, o.axis))])
        }
        Op::Pump { f, root, depth } => {
            let r = a5::get_resolution(*root);
            let kids = a5::cell_to_children(*root, Some(r + (*depth).min(9) as i32))?;
            let mut h = crate::rng::H64::new();
            for c in &kids {
                match *f % 6 {
                    0 => {
                        let p = a5::cell_to_lonlat(*c)?;
                        h.u(b(p.longitude()));
                        h.u(b(p.latitude()));
                    }
                    1 => {
                        let o = CellToBoundaryOptions { closed_ring: false, segments: Some(1) };
                        for p in a5::cell_to_boundary(*c, Some(o))? {
                            h.u(b(p.longitude()));
                            h.u(b(p.latitude()));
                        }
                    }
                    2 => h.u(a5::cell_to_parent(*c, None)?),
                    3 => {
                        let d = a5::core::serialization::deserialize(*c)?;
                        h.u(a5::core::serialization::serialize(&d)?);
                    }
                    4 => {
                        let p = a5::cell_to_lonlat(*c)?;
                        h.u(a5::lonlat_to_cell(p, r + (*depth).min(9) as i32)?);
                    }
                    _ => {
                        h.u(a5::get_resolution(*c) as u64);
                        h.u(a5::hex_to_u64(&a5::u64_to_hex(*c))?);
                    }
                }
            }
            Ok(vec![kids.len() as u64, h.0])
        }
        Op::Quaternions => {
            let mut v = Vec::new();
            for q in a5::core::dodecahedron_quaternions::QUATERNIONS.iter() {
                for x in q {
                    v.push(b(*x));
                }
            }
            use a5::core::constants as k;
            v.extend([b(k::PHI), b(k::TWO_PI.get()), b(k::DIHEDRAL_ANGLE.get()), b(k::INTERHEDRAL_ANGLE.get()), b(k::FACE_EDGE_ANGLE.get()), b(k::DISTANCE_TO_VERTEX), b(k::R_MIDEDGE), b(k::R_CIRCUMSCRIBED), b(k::R_INSCRIBED)]);
            Ok(v)
        }
    }
}

fn panic_message(e: Box<dyn std::any::Any + Send>) -> String {
    if let Some(s) = e.downcast_ref::<&str>() {
        s.to_string()
    } else if let Some(s) = e.downcast_ref::<String>() {
        s.clone()
    } else {
        "<non-string panic payload>".to_string()
    }
}

/// Execute one operation; panics are caught and become an outcome.
pub fn exec(op: &Op, env: &Env) -> Outcome {
    match catch_unwind(AssertUnwindSafe(|| exec_inner(op, env))) {
        Ok(Ok(v)) => Outcome::Ok(v),
        Ok(Err(e)) => Outcome::Err(e),
        Err(p) => Outcome::Panic(panic_message(p)),
    }
}

/// Silence the default panic printer (panics are outcomes here, not diagnostics).
pub fn quiet_panics() {
    if std::env::var_os("A5SIM_LOUD").is_some() {
        return;
    }
    std::panic::set_hook(Box::new(|_| {}));
}
