//! Scenario = everything one simulated run consists of, fully concrete (so a replay file is
//! self-contained), and the seeded swarm generator that produces scenarios from the pool.

use crate::ops::{Op, Outcome};
use crate::pool::Pool;
use crate::rng::{derive, Rng, H64};
use serde::{Deserialize, Serialize};

#[derive(Clone, Copy, Debug, Default, PartialEq, Eq, Serialize, Deserialize)]
pub struct Foot {
    pub face: u32,
    pub sph: [u64; 4],
}

impl Foot {
    pub fn from_view(v: &a5::verif::MemoView) -> Foot {
        Foot { face: v.face, sph: v.spherical }
    }
    pub fn and(&self, o: &Foot) -> Foot {
        Foot { face: self.face & o.face, sph: [self.sph[0] & o.sph[0], self.sph[1] & o.sph[1], self.sph[2] & o.sph[2], self.sph[3] & o.sph[3]] }
    }
    pub fn or(&self, o: &Foot) -> Foot {
        Foot { face: self.face | o.face, sph: [self.sph[0] | o.sph[0], self.sph[1] | o.sph[1], self.sph[2] | o.sph[2], self.sph[3] | o.sph[3]] }
    }
    pub fn minus(&self, o: &Foot) -> Foot {
        Foot { face: self.face & !o.face, sph: [self.sph[0] & !o.sph[0], self.sph[1] & !o.sph[1], self.sph[2] & !o.sph[2], self.sph[3] & !o.sph[3]] }
    }
    pub fn is_empty(&self) -> bool {
        self.face == 0 && self.sph == [0; 4]
    }
    pub fn count(&self) -> u32 {
        self.face.count_ones() + self.sph.iter().map(|w| w.count_ones()).sum::<u32>()
    }
    pub fn hash64(&self) -> u64 {
        let mut h = H64::new();
        h.u(self.face as u64);
        for w in self.sph {
            h.u(w);
        }
        h.0
    }
}

/// Reference entry of one pool op, produced by a pristine child process.
#[derive(Clone, Debug, Serialize, Deserialize)]
pub struct RefEntry {
    /// "ok" | "abort" | "timeout" | "too_big"
    pub status: String,
    pub outcome: Option<Outcome>,
    /// memo slots the op fills when it is the first call of a process
    pub foot: Foot,
    pub us: u64,
}

#[derive(Clone, Debug, PartialEq, Eq, Serialize, Deserialize)]
pub enum Start {
    AtBegin,
    /// becomes runnable once this many operations completed globally (late join)
    AfterOps(u32),
    /// becomes runnable when that simulated thread has exited (restart with a cold memo)
    AfterExit(u8),
}

#[derive(Clone, Debug, Serialize, Deserialize)]
pub struct Step {
    /// index into `Scenario::ops`
    pub op: u32,
    pub repeat: u32,
    /// set the thread's hash key to this value before the op (fault kind `hash_rekey`)
    pub rekey: Option<u64>,
    /// advance the process's simulated clocks by this many milliseconds before the op (fault
    /// kind `clock_jump`; needs the LD_PRELOAD clock shim, otherwise nothing happens)
    #[serde(default)]
    pub clock_jump_ms: u64,
    /// nonzero: before the op, damage one of the files the library has left in the process's
    /// private temp directory (torn / lost / zero-tailed / bit-flipped write), seeded by this
    /// value (fault kind `disk_fault`; a no-op while the library writes no file)
    #[serde(default)]
    pub disk_fault: u64,
}

#[derive(Clone, Debug, Serialize, Deserialize)]
pub struct ThreadPlan {
    pub start: Start,
    pub hash_key: u64,
    pub steps: Vec<Step>,
    /// stack size of the caller thread in KiB (0 = 1 MiB). Part of the environment a result
    /// must not depend on: it changes where the thread's stack lies relative to its heap arena.
    #[serde(default)]
    pub stack_kb: u32,
    /// operations issued from a thread-local destructor while the thread is being torn down
    #[serde(default)]
    pub exit_ops: Vec<u32>,
    /// register that destructor before the thread's first library call (it then runs AFTER the
    /// library's own thread-locals have been destroyed) instead of after its last one
    #[serde(default)]
    pub exit_guard_early: bool,
    /// nonzero: the thread restricts itself to this many CPUs before its first library call
    /// (`available_parallelism` is part of the environment a result must not depend on; threads
    /// the library starts inherit the restriction)
    #[serde(default)]
    pub cpus: u8,
}

#[derive(Clone, Debug, Serialize, Deserialize)]
pub struct Scenario {
    pub seed: u64,
    pub ops: Vec<Op>,
    /// history-free reference outcome per op (from pristine processes)
    pub expected: Vec<Outcome>,
    /// cold footprint per op (empty if unknown)
    pub foot: Vec<Foot>,
    /// poison kind per op
    pub poison: Vec<Option<String>>,
    pub threads: Vec<ThreadPlan>,
    /// bit i set <=> yield site i is an active scheduling point
    pub yield_mask: u32,
    /// probability (percent) of handing the baton to another thread at an active yield site
    pub preempt_pct: u8,
    /// probability (percent) of handing the baton to another thread at an op boundary
    pub switch_pct: u8,
    pub n_inst: u8,
    pub n_crs: u8,
    /// read the thread's memo view after each memo-using op (coverage measure)
    pub probe: bool,
    pub mode: String,
    /// mixed into the schedule PRNG; the minimiser varies it to re-search schedules
    #[serde(default)]
    pub sched_salt: u64,
    /// 0 = uniformly random hand-offs; d >= 1 = PCT-style priority schedule with d-1 priority
    /// change points (finds orderings that need few specific preemptions with higher probability)
    #[serde(default)]
    pub pct_depth: u8,
    /// nonzero: seed of the write-path faults (short write, ENOSPC, EIO, failed fsync, failed
    /// rename) on files the library opens for writing under its temp directory
    #[serde(default)]
    pub fs_fault: u64,
}

impl Scenario {
    pub fn total_ops(&self) -> u64 {
        self.threads.iter().map(|t| t.steps.iter().map(|s| s.repeat as u64).sum::<u64>()).sum()
    }
    pub fn hash64(&self) -> u64 {
        let mut h = H64::new();
        for t in &self.threads {
            h.u(0xffff);
            h.u(t.hash_key);
            for s in &t.steps {
                h.bytes(self.ops[s.op as usize].key().as_bytes());
                h.u(s.repeat as u64);
                h.u(s.rekey.unwrap_or(0));
            }
        }
        h.u(self.yield_mask as u64);
        h.0
    }
}

pub struct GenCtx<'a> {
    pub pool: &'a Pool,
    pub refs: &'a [RefEntry],
    /// pool indices with a usable reference
    pub usable: Vec<u32>,
    pub by_group: Vec<Vec<u32>>,
    pub poison_by_group: Vec<Vec<u32>>,
    pub cheap: Vec<u32>,
    pub kinds: Vec<&'static str>,
    /// usable pool indices per op kind (same order as `kinds`)
    pub by_kind: Vec<Vec<u32>>,
    /// per kind: ops with a small STATIC cost estimate (candidates for medium-haul repetition);
    /// never derived from measured time, which would make generation irreproducible
    pub quick_by_kind: Vec<Vec<u32>>,
    /// non-poison projection ops on the thread-local instance (slot-targeted points)
    pub tl_slot_ops: Vec<u32>,
    /// members of each family of near-identical ops
    pub families: Vec<Vec<u32>>,
    /// families without big-result calls (used by the contention mode)
    pub small_families: Vec<Vec<u32>>,
    /// indices into `families`, grouped by family type (a, b, c, ...): a family is drawn by
    /// type first, so that rare types (big results, spellings) weigh as much as common ones
    pub families_by_type: Vec<Vec<usize>>,
    /// families that contain a state pump (used only by the deep_pump mode)
    pub pump_families: Vec<usize>,
    /// cheap ops in kind-interleaved order (first every kind's first op, then every kind's second
    /// op, ...): the walk of the systematic medium-haul scenarios
    pub haul_order: Vec<u32>,
    /// hash of an op's key -> pool index (to find the family of an op inside a scenario)
    pub key_ix: std::collections::HashMap<u64, u32>,
    /// family id -> usable, valid, not-big members
    pub family_members: std::collections::HashMap<u32, Vec<u32>>,
}

impl<'a> GenCtx<'a> {
    pub fn new(pool: &'a Pool, refs: &'a [RefEntry]) -> GenCtx<'a> {
        let mut usable = Vec::new();
        let mut by_group = vec![Vec::new(); 13];
        let mut poison_by_group = vec![Vec::new(); 13];
        let mut cheap = Vec::new();
        let mut kinds: Vec<&'static str> = Vec::new();
        let mut by_kind: Vec<Vec<u32>> = Vec::new();
        let mut quick_by_kind: Vec<Vec<u32>> = Vec::new();
        let mut tl_slot_ops: Vec<u32> = Vec::new();
        let mut fam_map: std::collections::BTreeMap<u32, Vec<u32>> = std::collections::BTreeMap::new();
        for (i, p) in pool.ops.iter().enumerate() {
            if refs[i].status != "ok" || refs[i].outcome.is_none() {
                continue;
            }
            if matches!(p.op, Op::Pump { .. }) {
                // state pumps cost a second each: they are reached only through their family
                // (deep_pump mode), never through the general op selection
                if p.family > 0 {
                    fam_map.entry(p.family).or_default().push(i as u32);
                }
                continue;
            }
            usable.push(i as u32);
            let g = if p.group < 12 { p.group as usize } else { 12 };
            if p.poison.is_some() {
                poison_by_group[g].push(i as u32);
            } else {
                by_group[g].push(i as u32);
            }
            if p.cheap {
                cheap.push(i as u32);
            }
            let k = match kinds.iter().position(|x| *x == p.op.kind()) {
                Some(k) => k,
                None => {
                    kinds.push(p.op.kind());
                    by_kind.push(Vec::new());
                    quick_by_kind.push(Vec::new());
                    kinds.len() - 1
                }
            };
            by_kind[k].push(i as u32);
            if p.family > 0 {
                fam_map.entry(p.family).or_default().push(i as u32);
            }
            if p.poison.is_none() && matches!(p.op, Op::Forward { t: crate::ops::Target::Tl, .. } | Op::Inverse { t: crate::ops::Target::Tl, .. }) {
                tl_slot_ops.push(i as u32);
            }
            if p.op.est_cost_us() <= 80 {
                quick_by_kind[k].push(i as u32);
            }
        }
        let mut families: Vec<Vec<u32>> = Vec::new();
        let mut by_type: std::collections::BTreeMap<u8, Vec<usize>> = std::collections::BTreeMap::new();
        for (fid, members) in fam_map.into_iter() {
            if members.len() >= 2 {
                let t = pool.family_types.get(fid as usize).copied().unwrap_or(0);
                by_type.entry(t).or_default().push(families.len());
                families.push(members);
            }
        }
        // pump families are expensive (tens of thousands of calls): only the deep_pump mode uses them
        let pump_families: Vec<usize> = by_type.remove(&b'n').unwrap_or_default();
        let families_by_type: Vec<Vec<usize>> = by_type.into_values().collect();
        let small_families: Vec<Vec<u32>> = families.iter().filter(|f| f.iter().all(|i| !pool.ops[*i as usize].op.is_big())).cloned().collect();
        let mut haul_order: Vec<u32> = Vec::new();
        for r in 0..80usize {
            for q in &quick_by_kind {
                if let Some(ix) = q.get(r) {
                    haul_order.push(*ix);
                }
            }
        }
        let mut key_ix = std::collections::HashMap::new();
        let mut family_members: std::collections::HashMap<u32, Vec<u32>> = std::collections::HashMap::new();
        for (i, p) in pool.ops.iter().enumerate() {
            if refs[i].status != "ok" || refs[i].outcome.is_none() {
                continue;
            }
            let mut h = H64::new();
            h.bytes(p.op.key().as_bytes());
            key_ix.insert(h.0, i as u32);
            if p.family > 0 && p.poison.is_none() && !p.op.is_big() {
                family_members.entry(p.family).or_default().push(i as u32);
            }
        }
        GenCtx { pool, refs, usable, by_group, poison_by_group, cheap, kinds, by_kind, quick_by_kind, tl_slot_ops, families, small_families, families_by_type, pump_families, haul_order, key_ix, family_members }
    }
}

/// Replace ops of a scenario by other members of their families (near-identical arguments).
/// Used by the cold-world chains: the next process of a chain then asks for the NEIGHBOUR of
/// what the previous one asked for - what a key that is too coarse would confuse across processes
/// (seeded change c13-au: a host-wide memo keyed by the candidate list of a lookup, not by the
/// point). Returns the number of ops replaced.
pub fn sibling_shift(sc: &mut Scenario, g: &GenCtx, rng: &mut Rng) -> u32 {
    let mut n = 0;
    for j in 0..sc.ops.len() {
        let mut h = H64::new();
        h.bytes(sc.ops[j].key().as_bytes());
        let ix = match g.key_ix.get(&h.0) {
            Some(i) => *i as usize,
            None => continue,
        };
        let p = &g.pool.ops[ix];
        if p.family == 0 || p.poison.is_some() || !rng.pct(70) {
            continue;
        }
        let members = match g.family_members.get(&p.family) {
            Some(m) if m.len() >= 2 => m,
            _ => continue,
        };
        // prefer a sibling of the same kind (the neighbour point, not the boundary of its cell)
        let same_kind: Vec<u32> = members.iter().copied().filter(|m| *m as usize != ix && g.pool.ops[*m as usize].op.kind() == p.op.kind()).collect();
        let s = if !same_kind.is_empty() && rng.pct(80) {
            *rng.pick(&same_kind) as usize
        } else {
            let o = *rng.pick(members) as usize;
            if o == ix {
                continue;
            }
            o
        };
        if let Some(out) = &g.refs[s].outcome {
            sc.ops[j] = g.pool.ops[s].op.clone();
            sc.expected[j] = out.clone();
            sc.foot[j] = g.refs[s].foot.clone();
            sc.poison[j] = None;
            n += 1;
        }
    }
    n
}

fn weighted(rng: &mut Rng, w: &[u32]) -> usize {
    let total: u32 = w.iter().sum();
    let mut x = rng.below(total as u64) as u32;
    for (i, wi) in w.iter().enumerate() {
        if x < *wi {
            return i;
        }
        x -= wi;
    }
    w.len() - 1
}

/// Seed -> scenario (pure function of the seed, the pool and the reference table).
pub fn generate(g: &GenCtx, seed: u64) -> Scenario {
    generate_at(g, seed, None)
}

/// `index`: position of the scenario in its batch, if it has one. It makes ONE choice systematic
/// instead of random: every eighth scenario is a medium-haul scenario, and consecutive ones walk
/// through the pool's cheap ops in kind-interleaved order, so that every kind (and up to dozens of
/// its ops) is repeated 30-3000 times somewhere in every batch - a call-count threshold on one
/// particular argument (mutant m4) is then met by construction, not by luck.
pub fn generate_at(g: &GenCtx, seed: u64, index: Option<u64>) -> Scenario {
    let mut rng = Rng::new(derive(seed, 0x7363656e));
    let mut sc = Scenario {
        seed,
        ops: Vec::new(),
        expected: Vec::new(),
        foot: Vec::new(),
        poison: Vec::new(),
        threads: Vec::new(),
        yield_mask: 0,
        preempt_pct: 0,
        switch_pct: 50,
        n_inst: 3,
        n_crs: 2,
        probe: true,
        mode: "normal".into(),
        sched_salt: 0,
        pct_depth: 0,
        fs_fault: 0,
    };
    // ---- swarm configuration
    let crowd = rng.pct(if a5::verif::site::COUNT > 24 { 6 } else { 3 });
    // crowd: 17-24 simulated threads, most of them alive (parked) at the same time - state that
    // depends on how many threads exist or have existed
    // (crowd sizes cluster around powers of two: pools, arenas and bitmasks of per-thread objects
    // have capacities like 16, 32, 64, 128, 256, 512)
    let n_threads = if crowd {
        match rng.below(24) {
            0..=11 => rng.range(17, 24) as usize,
            12..=14 => rng.range(30, 35) as usize,
            15..=17 => rng.range(62, 67) as usize,
            18..=20 => rng.range(126, 131) as usize,
            21..=22 => rng.range(254, 259) as usize,
            _ => rng.range(510, 515) as usize,
        }
    } else {
        1 + weighted(&mut rng, &[15, 30, 25, 15, 8, 7])
    };
    let long_haul = rng.pct(3);
    let poison_on = rng.pct(65);
    let rekey_on = rng.pct(40);
    let churn_on = rng.pct(55);
    let sandwich_on = rng.pct(60);
    let siblings_on = rng.pct(50);
    if rng.pct(55) {
        for s in 0..a5::verif::site::COUNT {
            if rng.pct(50) {
                sc.yield_mask |= 1 << s;
            }
        }
        sc.preempt_pct = rng.range(3, 60) as u8;
    }
    sc.switch_pct = rng.range(5, 90) as u8;
    if n_threads >= 2 && rng.pct(25) {
        sc.pct_depth = rng.range(1, 4) as u8;
    }
    if crowd {
        sc.mode = "crowd".into();
        // everybody gets going before anybody finishes
        sc.switch_pct = rng.range(60, 95) as u8;
        sc.pct_depth = 0;
    }
    // disabled op kinds (swarm): each kind off with 25 %
    let mut kind_off: Vec<&'static str> = Vec::new();
    for k in &g.kinds {
        if rng.pct(25) {
            kind_off.push(k);
        }
    }
    // sub-pool: a few faces so that ops collide on memo slots
    let n_groups = rng.range(1, 3) as usize;
    let groups: Vec<usize> = (0..n_groups).map(|_| rng.below(12) as usize).collect();
    let sub_size = rng.range(4, 40) as usize;
    let mut sub: Vec<u32> = Vec::new();
    let mut guard = 0;
    while sub.len() < sub_size && guard < 2000 {
        guard += 1;
        let how = rng.below(100);
        let src: &Vec<u32> = if how < 65 {
            &g.by_group[*rng.pick(&groups)]
        } else if how < 85 {
            // kind-balanced: rare op kinds get the same weight as common ones
            &g.by_kind[rng.below(g.by_kind.len() as u64) as usize]
        } else {
            &g.usable
        };
        if src.is_empty() {
            continue;
        }
        let ix = *rng.pick(src);
        let p = &g.pool.ops[ix as usize];
        if p.poison.is_some() && !poison_on {
            continue;
        }
        if kind_off.contains(&p.op.kind()) {
            continue;
        }
        if !sub.contains(&ix) {
            sub.push(ix);
        }
    }
    if sub.is_empty() {
        sub.push(g.usable[rng.below(g.usable.len() as u64) as usize]);
    }
    let mut poison_sub: Vec<u32> = Vec::new();
    if poison_on {
        for gr in &groups {
            let src = &g.poison_by_group[*gr];
            for _ in 0..rng.range(1, 4) {
                if !src.is_empty() {
                    poison_sub.push(*rng.pick(src));
                }
            }
        }
    }
    // local op table
    let mut local: Vec<u32> = Vec::new(); // pool index per scenario op
    let mut intern = |sc: &mut Scenario, ix: u32| -> u32 {
        if let Some(p) = local.iter().position(|x| *x == ix) {
            return p as u32;
        }
        local.push(ix);
        let p = &g.pool.ops[ix as usize];
        sc.ops.push(p.op.clone());
        sc.expected.push(g.refs[ix as usize].outcome.clone().unwrap());
        sc.foot.push(g.refs[ix as usize].foot);
        sc.poison.push(p.poison.clone());
        (local.len() - 1) as u32
    };
    // ---- threads
    for t in 0..n_threads {
        let n_ops = match if crowd { 0 } else { rng.below(4) } {
            0 => rng.range(1, 4),
            1 | 2 => rng.range(3, 16),
            _ => rng.range(10, 40),
        } as usize;
        let mut steps: Vec<Step> = Vec::new();
        while steps.len() < n_ops {
            let rekey = if rekey_on && rng.pct(12) { Some(rng.next_u64()) } else { None };
            if sandwich_on && !poison_sub.is_empty() && rng.pct(18) {
                // valid A, poison P, valid A again: the fault lands between two uses of a slot
                let a = intern(&mut sc, *rng.pick(&sub));
                let p = intern(&mut sc, *rng.pick(&poison_sub));
                steps.push(Step { op: a, repeat: 1, rekey: None, clock_jump_ms: 0, disk_fault: 0 });
                steps.push(Step { op: p, repeat: 1, rekey, clock_jump_ms: 0, disk_fault: 0 });
                steps.push(Step { op: a, repeat: 1, rekey: None, clock_jump_ms: 0, disk_fault: 0 });
                continue;
            }
            if siblings_on && !g.families.is_empty() && rng.pct(22) {
                // near-identical calls back to back: A, A', (A'',) A
                let f = {
                    let ty = &g.families_by_type[rng.below(g.families_by_type.len() as u64) as usize];
                    &g.families[*rng.pick(ty)]
                };
                if rng.pct(20) {
                    // alternation: A B (C) A B (C) ... - two or three entries competing for one
                    // cache line / "last value" slot
                    let k = rng.range(2, 3) as usize;
                    let members: Vec<u32> = (0..k).map(|_| intern(&mut sc, *rng.pick(f))).collect();
                    for _ in 0..rng.range(2, 12) {
                        for m in &members {
                            steps.push(Step { op: *m, repeat: 1, rekey: None, clock_jump_ms: 0, disk_fault: 0 });
                        }
                    }
                    continue;
                }
                if rng.pct(20) && f.len() >= 3 {
                    // walk: a run of consecutive family members in their natural order or in
                    // reverse (ascending / descending resolutions, growing / shrinking offsets)
                    let len = rng.range(2, (f.len() as i64).min(30)) as usize;
                    let start = rng.below((f.len() - len + 1) as u64) as usize;
                    let mut run: Vec<u32> = f[start..start + len].to_vec();
                    if rng.pct(50) {
                        run.reverse();
                    }
                    for ix in run {
                        let op = intern(&mut sc, ix);
                        steps.push(Step { op, repeat: 1, rekey: None, clock_jump_ms: 0, disk_fault: 0 });
                    }
                    continue;
                }
                let a = intern(&mut sc, *rng.pick(f));
                steps.push(Step { op: a, repeat: 1, rekey: None, clock_jump_ms: 0, disk_fault: 0 });
                for _ in 0..rng.range(1, 3) {
                    let b = intern(&mut sc, *rng.pick(f));
                    steps.push(Step { op: b, repeat: 1, rekey, clock_jump_ms: 0, disk_fault: 0 });
                }
                if rng.pct(60) {
                    steps.push(Step { op: a, repeat: 1, rekey: None, clock_jump_ms: 0, disk_fault: 0 });
                }
                continue;
            }
            let ix = if !poison_sub.is_empty() && rng.pct(10) { *rng.pick(&poison_sub) } else { *rng.pick(&sub) };
            let op = intern(&mut sc, ix);
            let repeat = if rng.pct(6) { rng.range(2, 5) as u32 } else { 1 };
            steps.push(Step { op, repeat, rekey, clock_jump_ms: 0, disk_fault: 0 });
        }
        let start = if t == 0 || !churn_on || crowd {
            Start::AtBegin
        } else {
            match rng.below(3) {
                0 => Start::AtBegin,
                1 => Start::AfterOps(rng.range(1, 30) as u32),
                _ => Start::AfterExit(rng.below(t as u64) as u8),
            }
        };
        // caller threads come with all kinds of stack sizes (at most two very large ones per run)
        let stack_kb = if rng.pct(80) {
            0
        } else {
            let big_so_far = sc.threads.iter().filter(|t| t.stack_kb >= 65536).count();
            let c = *rng.pick(&[128u32, 512, 4096, 65536, 262144]);
            if c >= 65536 && big_so_far >= 2 { 4096 } else { c }
        };
        // a few threads make library calls from a thread-local destructor when they end
        let mut exit_ops: Vec<u32> = Vec::new();
        if rng.pct(6) {
            for _ in 0..rng.range(1, 3) {
                let ix = *rng.pick(&sub);
                exit_ops.push(intern(&mut sc, ix));
            }
        }
        let exit_guard_early = rng.pct(60);
        sc.threads.push(ThreadPlan { start, hash_key: rng.next_u64(), steps, stack_kb, exit_ops, exit_guard_early, cpus: 0 });
    }
    // contention: several threads hammer the same few near-identical calls (one family), with
    // every yield site active and a high preemption rate - process-wide keyed state (hand-off
    // slots, "last value" shortcuts, shared scratch) is then hit from inside other threads' calls
    let has_sync_site = a5::verif::site::COUNT > 24;
    if !g.small_families.is_empty() && rng.pct(if has_sync_site { 30 } else { 8 }) {
        let f = &g.small_families[rng.below(g.small_families.len() as u64) as usize];
        let members: Vec<u32> = {
            let mut m = f.clone();
            rng.shuffle(&mut m);
            m.truncate(rng.range(2, 6) as usize);
            m
        };
        sc.threads.clear();
        for _ in 0..rng.range(3, 5) {
            let mut steps = Vec::new();
            for _ in 0..rng.range(3, 10) {
                let op = intern(&mut sc, *rng.pick(&members));
                steps.push(Step { op, repeat: 1, rekey: None, clock_jump_ms: 0, disk_fault: 0 });
            }
            sc.threads.push(ThreadPlan { start: Start::AtBegin, hash_key: rng.next_u64(), steps, stack_kb: 0, exit_ops: Vec::new(), exit_guard_early: false, cpus: 0 });
        }
        let all_sites = if a5::verif::site::COUNT >= 32 { u32::MAX } else { (1u32 << a5::verif::site::COUNT) - 1 };
        sc.yield_mask = match rng.below(10) {
            // in the auto-instrumented build: often only the synchronisation operations, so
            // that whole calls of other threads fit into the window between two of them
            0..=4 if has_sync_site => 1u32 << (a5::verif::site::COUNT - 1),
            0..=7 => all_sites,
            _ => 0,
        };
        sc.preempt_pct = rng.range(25, 60) as u8;
        sc.switch_pct = 50;
        sc.pct_depth = 0;
        sc.mode = "contention".into();
        return sc;
    }
    // deep pump (rare, expensive): one thread pushes 4^8..4^9 distinct cells through one function
    // and then probes the first, middle and last of them with ordinary calls
    // (a debug-like build is ~10x slower per call: fewer pumps there)
    let pump_pct = if cfg!(debug_assertions) { 6 } else { 25 };
    if !g.pump_families.is_empty() && rng.pct(1) && rng.pct(pump_pct) {
        let f = &g.families[*rng.pick(&g.pump_families)];
        let pump = f.iter().copied().find(|i| matches!(g.pool.ops[*i as usize].op, Op::Pump { .. }));
        if let Some(pump) = pump {
            let probes: Vec<u32> = f.iter().copied().filter(|i| *i != pump).collect();
            let t = rng.below(sc.threads.len() as u64) as usize;
            let mut steps: Vec<Step> = Vec::new();
            let p = intern(&mut sc, pump);
            steps.push(Step { op: p, repeat: 1, rekey: None, clock_jump_ms: 0, disk_fault: 0 });
            for _ in 0..rng.range(4, 12) {
                if probes.is_empty() {
                    break;
                }
                let op = intern(&mut sc, *rng.pick(&probes));
                steps.push(Step { op, repeat: 1, rekey: None, clock_jump_ms: 0, disk_fault: 0 });
            }
            let at = rng.below(sc.threads[t].steps.len() as u64 + 1) as usize;
            let tail = sc.threads[t].steps.split_off(at);
            sc.threads[t].steps.extend(steps);
            sc.threads[t].steps.extend(tail);
            sc.mode = "deep_pump".into();
        }
    }
    // clock jumps (fault kind): the simulated clocks leap forward by 1 ms .. 30 days before some ops
    if rng.pct(15) {
        for t in sc.threads.iter_mut() {
            for st in t.steps.iter_mut() {
                if rng.pct(10) {
                    st.clock_jump_ms = (10f64.powf(rng.uniform(0.0, 9.4))) as u64;
                    // now and then a leap of years (absolute dates: 2038, a leap day, a new year)
                    if st.clock_jump_ms % 32 == 7 {
                        st.clock_jump_ms = (1 + st.clock_jump_ms % 25) * 365 * 86_400_000 + st.clock_jump_ms;
                    }
                }
            }
        }
    }
    // disk faults (fault kinds): drawn from a PRNG of their own so that they do not shift any
    // other choice of the scenario
    {
        let mut fr = Rng::new(derive(seed, 0x6469_736b));
        if fr.pct(12) {
            for t in sc.threads.iter_mut() {
                for st in t.steps.iter_mut() {
                    if fr.pct(15) {
                        st.disk_fault = fr.next_u64() | 1;
                    }
                }
            }
        }
        if fr.pct(12) {
            sc.fs_fault = fr.next_u64() | 1;
        }
        if fr.pct(10) {
            for t in sc.threads.iter_mut() {
                if fr.pct(60) {
                    t.cpus = 1 + fr.below(3) as u8;
                }
            }
        }
    }
    // medium-haul: one op of a uniformly chosen kind repeated 30..3000 times (process- or
    // thread-wide call-count thresholds, caches that fill up)
    let haul_now = {
        let random = rng.pct(12);
        match index {
            Some(i) if !g.haul_order.is_empty() => i % 8 == 5,
            _ => random,
        }
    };
    if haul_now {
        let k = rng.below(g.quick_by_kind.len() as u64) as usize;
        if !g.quick_by_kind[k].is_empty() {
            let mut ix = *rng.pick(&g.quick_by_kind[k]);
            let mut walked = false;
            if let Some(i) = index {
                if !g.haul_order.is_empty() {
                    ix = g.haul_order[((i / 8) as usize) % g.haul_order.len()];
                    walked = true;
                }
            }
            if g.pool.ops[ix as usize].poison.is_none() || poison_on || walked {
                let op = intern(&mut sc, ix);
                let t = rng.below(sc.threads.len() as u64) as usize;
                let at = rng.below(sc.threads[t].steps.len() as u64 + 1) as usize;
                // log-uniform in [30, 3000]
                let repeat = (30.0 * (100.0f64).powf(rng.unit())) as u32;
                sc.threads[t].steps.insert(at, Step { op, repeat, rekey: None, clock_jump_ms: 0, disk_fault: 0 });
                sc.mode = "medium_haul".into();
            }
        }
    }
    // slot sweep: one thread walks through a large random part of the 240 + 30 memo slots in a
    // random order (fill orders, "cache full" conditions), then revisits some of them warm
    if rng.pct(4) && g.tl_slot_ops.len() >= 100 {
        sc.mode = "slot_sweep".into();
        let mut order: Vec<u32> = g.tl_slot_ops.clone();
        rng.shuffle(&mut order);
        let n = rng.range(60, order.len() as i64) as usize;
        order.truncate(n);
        let t = rng.below(sc.threads.len() as u64) as usize;
        let mut steps: Vec<Step> = Vec::new();
        for ix in &order {
            let op = intern(&mut sc, *ix);
            steps.push(Step { op, repeat: 1, rekey: None, clock_jump_ms: 0, disk_fault: 0 });
        }
        for _ in 0..rng.range(5, 40) {
            let op = intern(&mut sc, *rng.pick(&order));
            steps.push(Step { op, repeat: 1, rekey: None, clock_jump_ms: 0, disk_fault: 0 });
        }
        let at = rng.below(sc.threads[t].steps.len() as u64 + 1) as usize;
        let tail = sc.threads[t].steps.split_off(at);
        sc.threads[t].steps.extend(steps);
        sc.threads[t].steps.extend(tail);
    }
    // phased sweep: one thread issues a long run of DIFFERENT calls, in phases that each stay on
    // one or two faces and one or two kinds of call (generation counters that wrap, caches with a
    // capacity, epochs: state that only misbehaves after hundreds of distinct keys)
    if rng.pct(5) {
        let t = rng.below(sc.threads.len() as u64) as usize;
        let mut steps: Vec<Step> = Vec::new();
        for _ in 0..rng.range(2, 6) {
            let faces: Vec<usize> = (0..rng.range(1, 2)).map(|_| rng.below(12) as usize).collect();
            let k1 = rng.below(g.kinds.len() as u64) as usize;
            let k2 = rng.below(g.kinds.len() as u64) as usize;
            let mut cand: Vec<u32> = Vec::new();
            for f in &faces {
                for ix in &g.by_group[*f] {
                    let p = &g.pool.ops[*ix as usize];
                    let k = p.op.kind();
                    if p.op.est_cost_us() <= 80 && (k == g.kinds[k1] || k == g.kinds[k2] || k == "lonlat_to_cell" || k == "a5cell_contains_point") {
                        cand.push(*ix);
                    }
                }
            }
            if cand.len() < 4 {
                continue;
            }
            let len = (20.0 * (40.0f64).powf(rng.unit())) as usize; // log-uniform 20..800
            let phase_start = steps.len();
            let mut last: Option<u32> = None;
            'phase: while steps.len() < 4000 {
                // each pass over the shuffled candidates uses every op once; consecutive steps
                // always differ
                rng.shuffle(&mut cand);
                for ix in cand.clone() {
                    if Some(ix) == last {
                        continue;
                    }
                    let op = intern(&mut sc, ix);
                    steps.push(Step { op, repeat: 1, rekey: None, clock_jump_ms: 0, disk_fault: 0 });
                    last = Some(ix);
                    if steps.len() - phase_start >= len || steps.len() >= 4000 {
                        break 'phase;
                    }
                }
            }
        }
        if !steps.is_empty() {
            sc.mode = "phased_sweep".into();
            let at = rng.below(sc.threads[t].steps.len() as u64 + 1) as usize;
            let tail = sc.threads[t].steps.split_off(at);
            sc.threads[t].steps.extend(steps);
            sc.threads[t].steps.extend(tail);
            // keep such long runs cheap: no yield sites
            sc.yield_mask = 0;
        }
    }
    if long_haul && !g.cheap.is_empty() {
        sc.mode = "long_haul".into();
        // one op repeated across the 10 000-call threshold of an instance, surrounded by others
        let crs_cheap: Vec<u32> = g.cheap.iter().copied().filter(|i| matches!(g.pool.ops[*i as usize].op, Op::CrsVertex { inst: Some(_), .. })).collect();
        let ix = if !crs_cheap.is_empty() && rng.pct(60) {
            *rng.pick(&crs_cheap)
        } else {
            // kind-balanced among the cheap ops
            let mut pick = *rng.pick(&g.cheap);
            for _ in 0..8 {
                let k = rng.below(g.by_kind.len() as u64) as usize;
                let c: Vec<u32> = g.by_kind[k].iter().copied().filter(|i| g.pool.ops[*i as usize].cheap).collect();
                if !c.is_empty() {
                    pick = *rng.pick(&c);
                    break;
                }
            }
            pick
        };
        let op = intern(&mut sc, ix);
        let t = rng.below(sc.threads.len() as u64) as usize;
        let at = rng.below(sc.threads[t].steps.len() as u64 + 1) as usize;
        // mostly just across the 10 000-call threshold; sometimes across 2^16 (16-bit counters)
        let repeat = if rng.pct(12) { rng.range(65_600, 70_000) as u32 } else { rng.range(10_050, 12_500) as u32 };
        sc.threads[t].steps.insert(at, Step { op, repeat, rekey: None, clock_jump_ms: 0, disk_fault: 0 });
        // long-haul runs keep yields off: 10^4 repeats x yield sites would only slow the run down
        sc.yield_mask = 0;
    }
    sc
}
