//! The one source of randomness. Everything a run decides is drawn from a `Rng` that was
//! seeded from VERIF_SEED (or from a value derived from it by `derive`). No other PRNG, no
//! clock, no address and no OS entropy enters a decision.

#[derive(Clone, Debug)]
pub struct Rng {
    s: [u64; 4],
    pub draws: u64,
}

pub fn splitmix(x: &mut u64) -> u64 {
    *x = x.wrapping_add(0x9e3779b97f4a7c15);
    let mut z = *x;
    z = (z ^ (z >> 30)).wrapping_mul(0xbf58476d1ce4e5b9);
    z = (z ^ (z >> 27)).wrapping_mul(0x94d049bb133111eb);
    z ^ (z >> 31)
}

/// Derive an independent stream id from a seed and a label (pure function).
pub fn derive(seed: u64, label: u64) -> u64 {
    let mut x = seed ^ label.wrapping_mul(0xd1342543de82ef95);
    let a = splitmix(&mut x);
    let b = splitmix(&mut x);
    a ^ b.rotate_left(17)
}

impl Rng {
    pub fn new(seed: u64) -> Rng {
        let mut x = seed;
        let s = [splitmix(&mut x), splitmix(&mut x), splitmix(&mut x), splitmix(&mut x)];
        Rng { s, draws: 0 }
    }

    pub fn next_u64(&mut self) -> u64 {
        self.draws += 1;
        let result = self.s[1].wrapping_mul(5).rotate_left(7).wrapping_mul(9);
        let t = self.s[1] << 17;
        self.s[2] ^= self.s[0];
        self.s[3] ^= self.s[1];
        self.s[1] ^= self.s[2];
        self.s[0] ^= self.s[3];
        self.s[2] ^= t;
        self.s[3] = self.s[3].rotate_left(45);
        result
    }

    /// Uniform in 0..n (n >= 1). Modulo bias is irrelevant at these sizes.
    pub fn below(&mut self, n: u64) -> u64 {
        if n <= 1 {
            self.next_u64();
            return 0;
        }
        self.next_u64() % n
    }

    pub fn range(&mut self, lo: i64, hi_incl: i64) -> i64 {
        lo + self.below((hi_incl - lo + 1) as u64) as i64
    }

    pub fn pct(&mut self, p: u64) -> bool {
        self.below(100) < p
    }

    /// Uniform in [0,1)
    pub fn unit(&mut self) -> f64 {
        (self.next_u64() >> 11) as f64 / (1u64 << 53) as f64
    }

    pub fn uniform(&mut self, lo: f64, hi: f64) -> f64 {
        lo + (hi - lo) * self.unit()
    }

    pub fn pick<'a, T>(&mut self, v: &'a [T]) -> &'a T {
        &v[self.below(v.len() as u64) as usize]
    }

    pub fn shuffle<T>(&mut self, v: &mut [T]) {
        for i in (1..v.len()).rev() {
            let j = self.below(i as u64 + 1) as usize;
            v.swap(i, j);
        }
    }
}

/// FNV-style 64-bit running hash used for event logs, schedules and states.
#[derive(Clone, Copy, Debug)]
pub struct H64(pub u64);

impl H64 {
    pub fn new() -> H64 {
        H64(0xcbf29ce484222325)
    }
    pub fn u(&mut self, v: u64) {
        let mut x = self.0 ^ v;
        x = x.wrapping_mul(0x100000001b3);
        x ^= x >> 29;
        x = x.wrapping_mul(0xbf58476d1ce4e5b9);
        x ^= x >> 32;
        self.0 = x;
    }
    pub fn bytes(&mut self, b: &[u8]) {
        for c in b.chunks(8) {
            let mut w = [0u8; 8];
            w[..c.len()].copy_from_slice(c);
            self.u(u64::from_le_bytes(w));
        }
        self.u(b.len() as u64);
    }
}
