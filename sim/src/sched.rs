//! Engine H: the native history simulator.
//!
//! Simulated threads are real OS threads (the state under test lives in a real
//! `thread_local!`). Exactly one of them holds the baton and runs; a step ends at an op
//! boundary or at an active yield site inside the library. There is no scheduler thread: the
//! thread that ends a step takes the next decision itself (from the schedule PRNG, or from
//! the replay list) and, if another thread is chosen, unparks exactly that thread and parks.
//! OS thread ids, addresses and clocks never enter results, decisions or logs.

use crate::ops::{exec, Env, Op, Outcome};
use crate::rng::{derive, Rng, H64};
use crate::scenario::{Foot, Scenario, Start};
use a5::projections::DodecahedronProjection;
use serde::{Deserialize, Serialize};
use std::cell::{Cell, RefCell};
use std::collections::BTreeMap;
use std::sync::atomic::{AtomicU64, AtomicUsize, Ordering};
use std::sync::{Arc, Mutex};
use std::thread::{self, JoinHandle, Thread};
use std::time::Duration;

const MAIN: usize = usize::MAX;
/// Baton value while an exited simulated thread is being torn down (see `finish`).
const REAPER: usize = usize::MAX - 2;
pub const N_SITES: usize = a5::verif::site::COUNT as usize;

#[derive(Clone, Debug, Serialize, Deserialize, PartialEq)]
pub struct Violation {
    pub invariant: String,
    pub thread: usize,
    pub step: usize,
    pub rep: u32,
    pub op: Op,
    pub op_text: String,
    pub got: Outcome,
    pub expected: Outcome,
    pub reference: String,
    /// index of the scheduling point after which the violating op completed
    pub at_decision: usize,
}

impl Violation {
    /// Two violations are "the same" for minimisation and replay if the same operation
    /// deviates from the same reference under the same invariant.
    pub fn same_class(&self, o: &Violation) -> bool {
        self.invariant == o.invariant && self.op.reference_form() == o.op.reference_form() && self.expected == o.expected
    }
    pub fn line(&self) -> String {
        format!(
            "{} thread={} step={} rep={} op={} got={} expected={} reference={}",
            self.invariant, self.thread, self.step, self.rep, self.op_text, self.got.brief(), self.expected.brief(), self.reference
        )
    }
}

#[derive(Clone, Debug, Default, Serialize, Deserialize)]
pub struct RunStats {
    pub ops: u64,
    pub sched_points: u64,
    pub switches: u64,
    pub yield_hits: Vec<u64>,
    pub yield_preempts: Vec<u64>,
    pub thread_spawn_cold: u64,
    pub thread_exit: u64,
    pub late_join: u64,
    pub restart_after_exit: u64,
    pub forced_start: u64,
    #[serde(default)]
    pub blocked_handoffs: u64,
    #[serde(default)]
    pub clock_jumps: u64,
    /// scenarios run under each descriptor limit (RLIMIT_NOFILE of the worker process)
    #[serde(default)]
    pub fd_limit_scenarios: BTreeMap<String, u64>,
    /// scenarios run in a process whose /dev/shm, /var/tmp (and /tmp) are private bind mounts
    #[serde(default)]
    pub private_mount_scenarios: u64,
    /// exited threads whose teardown (thread-local destructors) took more than 2 s
    #[serde(default)]
    pub slow_teardowns: u64,
    /// caller threads that ran restricted to 1-3 CPUs
    #[serde(default)]
    pub cpu_limited_threads: u64,
    /// steps at which a disk fault was due / what was actually applied (nothing while the
    /// library leaves no file behind)
    #[serde(default)]
    pub disk_fault_points: u64,
    #[serde(default)]
    pub disk_faults_applied: BTreeMap<String, u64>,
    #[serde(default)]
    pub fs_write_fault_scenarios: u64,
    #[serde(default)]
    pub fs_write_faults_fired: u64,
    #[serde(default)]
    pub teardown_ops: u64,
    /// threads the library itself started inside a call and that the simulator took under its
    /// control through the thread-creation seam
    #[serde(default)]
    pub library_threads: u64,
    pub hash_rekey: u64,
    pub poison_ops: BTreeMap<String, u64>,
    pub caught_panic_same: u64,
    pub err_same: u64,
    pub instance_handoff: u64,
    pub long_haul_threshold_crossed: u64,
    pub foreign_memo_change: u64,
    pub same_op_in_3_threads: u64,
    pub reflected_pair_adjacent: u64,
    pub warm_hit_ops: u64,
    pub cold_fill_ops: u64,
    pub cold_filled: Foot,
    pub warm_hit: Foot,
    pub kinds: BTreeMap<String, u64>,
    pub states: Vec<u64>,
    pub transitions: Vec<u64>,
}

#[derive(Clone, Debug, Serialize, Deserialize)]
pub struct RunOut {
    pub violation: Option<Violation>,
    /// thread chosen at each scheduling point (the explicit schedule)
    pub decisions: Vec<u16>,
    pub log_hash: u64,
    pub sched_hash: u64,
    pub stats: RunStats,
    pub trace: Vec<String>,
    pub harness_error: Option<String>,
    /// strict replay only: the recorded decision list ended before the scenario did
    pub schedule_exhausted: bool,
    /// a thread is stuck inside the library for good; the process should not run further scenarios
    #[serde(default)]
    pub hung: bool,
}

#[derive(Clone, Debug)]
pub enum Schedule {
    /// draw from the schedule PRNG derived from the scenario seed
    Seeded,
    /// consume this list exactly; running out or naming a non-runnable thread is a harness error
    Strict(Vec<u16>),
    /// consume this list as far as it makes sense, fall back to "stay / lowest runnable"
    Lenient(Vec<u16>),
}

#[derive(PartialEq, Clone, Copy, Debug)]
enum Life {
    NotStarted,
    Live,
    Exited,
}

struct ThState {
    life: Life,
    handle: Option<Thread>,
    join: Option<JoinHandle<()>>,
    view: Foot,
    last_foot: Option<(u32, Foot)>,
    /// the thread holds (or held) the baton but makes no progress: it waits for a real lock that
    /// a parked thread holds. The watchdog passed the baton on; the thread rejoins at its next
    /// scheduling point.
    blocked: bool,
    /// kernel thread id (used only by the watchdog to see whether the baton holder sleeps)
    tid: i64,
    /// (step, rep, op index) of the operation the thread is executing right now
    current: Option<(usize, u32, u32)>,
}

struct State {
    rng: Rng,
    list: Option<(Vec<u16>, usize, bool)>,
    th: Vec<ThState>,
    ops_done: u64,
    decisions: Vec<u16>,
    /// simulated thread whose OS thread is on its way out; main hands the baton on once it is gone
    reap: Option<usize>,
    log: H64,
    sched: H64,
    violation: Option<Violation>,
    stats: RunStats,
    inst_last_user: Vec<Option<usize>>,
    crs_last_user: Vec<Option<usize>>,
    op_threads: Vec<u32>,
    trace: Vec<String>,
    tracing: bool,
    abort: bool,
    /// a simulated thread is stuck inside the library for good: nobody is joined any more
    hung: bool,
    exhausted: bool,
    /// PCT: priority per thread (higher runs first) and the scheduling-point indices at which the
    /// running thread's priority drops below everyone else's
    prio: Vec<i64>,
    change_points: Vec<u64>,
    low_water: i64,
    harness_error: Option<String>,
}

struct Shared {
    /// set when the scenario is over: threads the library started and that are still around are
    /// released from the baton discipline (they run on freely, as they would without the seam)
    finished: std::sync::atomic::AtomicBool,
    /// threads started by the library itself wait for the baton here (they must not use
    /// thread::park: std has not set up their thread handle yet when they register)
    dyn_lock: Mutex<()>,
    dyn_cv: std::sync::Condvar,
    scen: Scenario,
    env: Env,
    st: Mutex<State>,
    baton: AtomicUsize,
    main: Thread,
    progress: AtomicU64,
}

thread_local! {
    static CTX: RefCell<Option<(Arc<Shared>, usize)>> = const { RefCell::new(None) };
    static SUPPRESS: Cell<bool> = const { Cell::new(false) };
    /// the scheduler itself is creating a simulated thread: the thread-creation seam stays out
    static IN_SIM_SPAWN: Cell<bool> = const { Cell::new(false) };
}

enum Point {
    OpDone,
    Yield(u32),
    Exit,
    Begin,
}

fn yield_hook(site: u32) {
    if SUPPRESS.with(|s| s.get()) {
        // no scheduling point, but a sign of life for the watchdog: a long operation that runs
        // with its yield sites off must not look like a thread that is stuck
        CTX.with(|c| {
            if let Some((sh, _)) = c.borrow().as_ref() {
                sh.progress.fetch_add(1, Ordering::Relaxed);
            }
        });
        return;
    }
    CTX.with(|c| {
        if let Some((sh, me)) = c.borrow().as_ref() {
            sh.sched_point(*me, Point::Yield(site));
        }
    });
}

impl Shared {
    fn runnable(&self, st: &State, t: usize) -> bool {
        match st.th[t].life {
            Life::Exited => false,
            Life::Live => !st.th[t].blocked,
            Life::NotStarted => match &self.scen.threads[t].start {
                Start::AtBegin => true,
                Start::AfterOps(n) => st.ops_done >= *n as u64,
                Start::AfterExit(j) => (*j as usize) < st.th.len() && st.th[*j as usize].life == Life::Exited,
            },
        }
    }

    fn is_dynamic(&self, t: usize) -> bool {
        t != MAIN && t >= self.scen.threads.len()
    }

    fn wait_baton(&self, me: usize) {
        if self.is_dynamic(me) {
            let mut g = self.dyn_lock.lock().unwrap_or_else(|e| e.into_inner());
            while self.baton.load(Ordering::Acquire) != me && !self.finished.load(Ordering::Acquire) {
                // (no timeout: timed waits are distorted by clock jumps; every hand-off and the end
                // of the scenario notify)
                g = self.dyn_cv.wait(g).unwrap_or_else(|e| e.into_inner());
            }
            return;
        }
        while self.baton.load(Ordering::Acquire) != me {
            thread::park();
        }
    }

    /// Take one scheduling decision. `me` is MAIN for the initial decision.
    /// Returns the chosen thread (MAIN if nobody is left).
    fn decide(&self, st: &mut State, me: usize, me_runnable: bool, switch_pct: u64) -> usize {
        let n = st.th.len();
        let mut cand: Vec<usize> = (0..n).filter(|t| *t != me && self.runnable(st, *t)).collect();
        if cand.is_empty() && !me_runnable {
            // nobody runnable: release a pending thread whose start condition cannot be met any more
            if let Some(t) = (0..n).find(|t| st.th[*t].life == Life::NotStarted) {
                st.stats.forced_start += 1;
                cand.push(t);
            } else if let Some(t) = (0..n.min(self.scen.threads.len())).find(|t| st.th[*t].life == Life::Live && st.th[*t].blocked) {
                // only threads classified as blocked are left: whoever held their lock is gone,
                // so the first of them owns the baton again
                st.th[t].blocked = false;
                cand.push(t);
            } else {
                return MAIN;
            }
        }
        let chosen = match &mut st.list {
            Some((list, pos, lenient)) => {
                let want = if *pos < list.len() { Some(list[*pos] as usize) } else { None };
                *pos += 1;
                match want {
                    Some(w) if (w == me && me_runnable) || cand.contains(&w) => w,
                    None if !*lenient => {
                        // the recorded schedule ends here (the recorded run stopped at its
                        // violation): stop this run too, without a verdict of its own
                        st.exhausted = true;
                        st.abort = true;
                        if me_runnable { me } else { cand[0] }
                    }
                    other => {
                        if !*lenient {
                            st.harness_error = Some(format!(
                                "replay diverged at decision {}: wanted {:?}, runnable {:?} me={} me_runnable={}",
                                *pos - 1, other, cand, me as isize, me_runnable
                            ));
                            st.abort = true;
                        }
                        if me_runnable { me } else { cand[0] }
                    }
                }
            }
            None if !st.prio.is_empty() => {
                // PCT: highest priority runnable thread runs; at a change point the running
                // thread is demoted below all others
                let at = st.stats.sched_points;
                if me != MAIN && st.change_points.contains(&at) {
                    st.low_water -= 1;
                    st.prio[me] = st.low_water;
                }
                let mut best: Option<usize> = if me_runnable { Some(me) } else { None };
                for t in &cand {
                    best = match best {
                        Some(b) if st.prio[b] >= st.prio[*t] => Some(b),
                        _ => Some(*t),
                    };
                }
                best.unwrap_or_else(|| cand[0])
            }
            None => {
                if me_runnable && (cand.is_empty() || !st.rng.pct(switch_pct)) {
                    if cand.is_empty() {
                        // keep the draw count independent of the candidate set
                        st.rng.next_u64();
                    }
                    me
                } else {
                    cand[st.rng.below(cand.len() as u64) as usize]
                }
            }
        };
        st.decisions.push(chosen as u16);
        st.sched.u(chosen as u64);
        st.stats.sched_points += 1;
        chosen
    }

    fn pass_to(self: &Arc<Self>, st: &mut State, to: usize) {
        if to == MAIN {
            self.baton.store(MAIN, Ordering::Release);
            self.main.unpark();
            return;
        }
        self.baton.store(to, Ordering::Release);
        if st.th[to].life == Life::NotStarted {
            st.th[to].life = Life::Live;
            st.stats.thread_spawn_cold += 1;
            match &self.scen.threads[to].start {
                Start::AfterOps(_) => st.stats.late_join += 1,
                Start::AfterExit(_) => st.stats.restart_after_exit += 1,
                Start::AtBegin => {}
            }
            let sh = self.clone();
            IN_SIM_SPAWN.with(|f| f.set(true));
            let jh = thread::Builder::new()
                .name(format!("sim{}", to))
                .stack_size(match self.scen.threads[to].stack_kb {
                    0 => 1 << 20,
                    kb => (kb as usize).clamp(64, 1 << 20) << 10,
                })
                .spawn(move || sim_thread(sh, to))
                .expect("spawn sim thread");
            IN_SIM_SPAWN.with(|f| f.set(false));
            st.th[to].handle = Some(jh.thread().clone());
            st.th[to].join = Some(jh);
        } else if self.is_dynamic(to) {
            let _g = self.dyn_lock.lock().unwrap_or_else(|e| e.into_inner());
            self.dyn_cv.notify_all();
        } else if let Some(h) = &st.th[to].handle {
            h.unpark();
        }
    }

    /// A thread that the watchdog had classified as blocked got going again: it must not run
    /// alongside the current baton holder, so it waits here until the baton comes back to it.
    fn rejoin(&self, me: usize) {
        if me == MAIN {
            return;
        }
        let was_blocked = {
            let mut st = self.st.lock().unwrap_or_else(|e| e.into_inner());
            let b = st.th[me].blocked;
            st.th[me].blocked = false;
            b
        };
        if was_blocked {
            self.wait_baton(me);
        }
    }

    fn sched_point(self: &Arc<Self>, me: usize, p: Point) {
        if self.finished.load(Ordering::Acquire) {
            return;
        }
        self.progress.fetch_add(1, Ordering::Relaxed);
        self.rejoin(me);
        let mut st = self.st.lock().unwrap_or_else(|e| e.into_inner());
        let (me_runnable, switch_pct) = match p {
            Point::Yield(site) => {
                let s = site as usize;
                if s < N_SITES {
                    st.stats.yield_hits[s] += 1;
                }
                if st.abort || s >= 32 || self.scen.yield_mask & (1u32 << s) == 0 {
                    return;
                }
                (true, self.scen.preempt_pct as u64)
            }
            Point::OpDone => (true, self.scen.switch_pct as u64),
            Point::Exit => (false, 100),
            Point::Begin => (false, 100),
        };
        if st.abort && me_runnable {
            return;
        }
        let chosen = self.decide(&mut st, me, me_runnable, switch_pct);
        if st.tracing {
            let what = match p {
                Point::Yield(s) => format!("yield[{}]", a5::verif::SITE_NAMES.get(s as usize).copied().unwrap_or("?")),
                Point::OpDone => "op_boundary".into(),
                Point::Exit => "exit".into(),
                Point::Begin => "begin".into(),
            };
            let d = st.decisions.len() - 1;
            st.trace.push(format!("d{} t{} {} -> t{}", d, me as isize, what, chosen as isize));
        }
        if chosen == me {
            return;
        }
        st.stats.switches += 1;
        if let Point::Yield(site) = p {
            st.stats.yield_preempts[site as usize] += 1;
        }
        self.pass_to(&mut st, chosen);
        drop(st);
        if me_runnable {
            self.wait_baton(me);
        }
    }

    fn op_done(self: &Arc<Self>, me: usize, step: usize, rep: u32, op_ix: u32, got: Outcome, view: Option<Foot>) {
        self.op_done2(me, step, rep, op_ix, got, view, true)
    }

    #[allow(clippy::too_many_arguments)]
    fn op_done2(self: &Arc<Self>, me: usize, step: usize, rep: u32, op_ix: u32, got: Outcome, view: Option<Foot>, then_schedule: bool) {
        self.progress.fetch_add(1, Ordering::Relaxed);
        self.rejoin(me);
        let mut st = self.st.lock().unwrap_or_else(|e| e.into_inner());
        let sc = &self.scen;
        let op = &sc.ops[op_ix as usize];
        let expected = &sc.expected[op_ix as usize];
        st.ops_done += 1;
        st.stats.ops += 1;
        *st.stats.kinds.entry(op.kind().to_string()).or_insert(0) += 1;
        st.log.u(((me as u64) << 48) ^ ((step as u64) << 24) ^ rep as u64);
        st.log.u(got.hash64());
        if let Some(p) = &sc.poison[op_ix as usize] {
            *st.stats.poison_ops.entry(p.clone()).or_insert(0) += 1;
        }
        if st.tracing {
            let line = format!("t{} step{} rep{} {} => {}", me, step, rep, op.describe(), got.brief());
            st.trace.push(line);
        }
        // same op seen in >= 3 threads of this scenario
        let bit = 1u32 << me.min(31);
        if st.op_threads[op_ix as usize] & bit == 0 {
            st.op_threads[op_ix as usize] |= bit;
            if st.op_threads[op_ix as usize].count_ones() == 3 {
                st.stats.same_op_in_3_threads += 1;
            }
        }
        // explicit-instance hand-off between simulated threads
        match op {
            Op::Forward { t: crate::ops::Target::Inst(k), .. } | Op::Inverse { t: crate::ops::Target::Inst(k), .. } => {
                let k = *k as usize % st.inst_last_user.len().max(1);
                if let Some(prev) = st.inst_last_user[k] {
                    if prev != me {
                        st.stats.instance_handoff += 1;
                    }
                }
                st.inst_last_user[k] = Some(me);
            }
            Op::CrsVertex { inst: Some(k), .. } => {
                let k = *k as usize % st.crs_last_user.len().max(1);
                if let Some(prev) = st.crs_last_user[k] {
                    if prev != me {
                        st.stats.instance_handoff += 1;
                    }
                }
                st.crs_last_user[k] = Some(me);
            }
            _ => {}
        }
        // memo coverage
        if let Some(v) = view {
            let before = st.th[me].view;
            let filled = v.minus(&before);
            let foot = sc.foot[op_ix as usize];
            let warm = foot.and(&before);
            if !filled.is_empty() {
                st.stats.cold_fill_ops += 1;
                st.stats.cold_filled = st.stats.cold_filled.or(&filled);
            }
            if !warm.is_empty() {
                st.stats.warm_hit_ops += 1;
                st.stats.warm_hit = st.stats.warm_hit.or(&warm);
            }
            // reflected and non-reflected use of the same (face, triangle) back to back
            if let Some((_, prev_foot)) = st.th[me].last_foot {
                let mut adj = false;
                for slot in 0..120usize {
                    let a = (foot.sph[slot / 64] >> (slot % 64)) & 1;
                    let s2 = slot + 120;
                    let b = (prev_foot.sph[s2 / 64] >> (s2 % 64)) & 1;
                    let a2 = (prev_foot.sph[slot / 64] >> (slot % 64)) & 1;
                    let b2 = (foot.sph[s2 / 64] >> (s2 % 64)) & 1;
                    if (a == 1 && b == 1) || (a2 == 1 && b2 == 1) {
                        adj = true;
                        break;
                    }
                }
                if adj {
                    st.stats.reflected_pair_adjacent += 1;
                }
            }
            st.th[me].last_foot = Some((op_ix, foot));
            let h_before = before.hash64();
            st.th[me].view = v;
            if st.stats.states.len() < 4096 {
                st.stats.states.push(v.hash64());
                let mut h = H64(h_before);
                h.bytes(op.kind().as_bytes());
                st.stats.transitions.push(h.0);
            }
        }
        match &got {
            Outcome::Panic(_) if got == *expected => st.stats.caught_panic_same += 1,
            Outcome::Err(_) if got == *expected => st.stats.err_same += 1,
            _ => {}
        }
        // ---- I1: result(op, any history, any thread, any schedule) == reference(op)
        if got != *expected && st.violation.is_none() {
            let at = st.decisions.len();
            st.violation = Some(Violation {
                invariant: "I1".into(),
                thread: me,
                step,
                rep,
                op: op.clone(),
                op_text: op.describe(),
                got,
                expected: expected.clone(),
                reference: "pristine-process".into(),
                at_decision: at,
            });
            st.abort = true;
        }
        drop(st);
        if then_schedule {
            self.sched_point(me, Point::OpDone);
        }
    }

    /// The simulated thread is done. It does NOT hand the baton on itself: what follows in the OS
    /// thread - the remaining thread-local destructors, the library's among them - would then run
    /// alongside the next baton holder, outside the schedule (a pool that takes an instance back
    /// in a thread-local `Drop` made the next thread's claim depend on real timing: benign4/2).
    /// The baton goes to main, which waits until the kernel task is gone and only then takes the
    /// scheduling decision on the thread's behalf.
    fn finish(self: &Arc<Self>, me: usize) {
        if self.finished.load(Ordering::Acquire) {
            return;
        }
        let mut st = self.st.lock().unwrap_or_else(|e| e.into_inner());
        st.th[me].life = Life::Exited;
        st.stats.thread_exit += 1;
        st.reap = Some(me);
        self.progress.fetch_add(1, Ordering::Relaxed);
        self.baton.store(REAPER, Ordering::Release);
        drop(st);
        self.main.unpark();
    }

    /// Main's side of `finish`: true if a thread was reaped (or given up on) and the baton moved on.
    fn reap(self: &Arc<Self>, waited_ns: i64) -> bool {
        let (me, tid) = {
            let st = self.st.lock().unwrap_or_else(|e| e.into_inner());
            match st.reap {
                Some(me) => (me, st.th[me].tid),
                None => return false,
            }
        };
        let gone = tid <= 0 || !std::path::Path::new(&format!("/proc/self/task/{}", tid)).exists();
        // a destructor that blocks for good must not block the simulator: after 2 s the schedule
        // goes on without the thread (as it did for every thread before this rule existed)
        if !gone && waited_ns < 2_000_000_000 {
            return false;
        }
        let handle = {
            let mut st = self.st.lock().unwrap_or_else(|e| e.into_inner());
            st.reap = None;
            if !gone {
                st.stats.slow_teardowns += 1;
            }
            st.th[me].join.take()
        };
        if let Some(h) = handle {
            if gone {
                let _ = h.join();
            }
            // (a handle that is dropped detaches the thread)
        }
        self.sched_point(me, Point::Exit);
        true
    }
}

/// Lives in a thread-local of the simulated thread. Its destructor runs while the thread is
/// being torn down - before or after the library's own thread-locals, depending on when it was
/// registered - issues the thread's `exit_ops` from there (a caller's per-thread buffer that is
/// flushed on exit does exactly this), and only then gives up the baton.
struct ExitGuard {
    sh: Arc<Shared>,
    me: usize,
}

impl Drop for ExitGuard {
    fn drop(&mut self) {
        let plan = &self.sh.scen.threads[self.me];
        let base = plan.steps.len();
        SUPPRESS.with(|s| s.set(true));
        for (k, op_ix) in plan.exit_ops.iter().enumerate() {
            if self.sh.st.lock().unwrap_or_else(|e| e.into_inner()).abort {
                break;
            }
            let op = &self.sh.scen.ops[*op_ix as usize];
            self.sh.st.lock().unwrap_or_else(|e| e.into_inner()).th[self.me].current = Some((base + k, 0, *op_ix));
            let got = exec(op, &self.sh.env);
            self.sh.st.lock().unwrap_or_else(|e| e.into_inner()).stats.teardown_ops += 1;
            self.sh.op_done2(self.me, base + k, 0, *op_ix, got, None, false);
        }
        self.sh.finish(self.me);
    }
}

thread_local! {
    static EXIT_GUARD: RefCell<Option<ExitGuard>> = const { RefCell::new(None) };
}

fn sim_thread(sh: Arc<Shared>, me: usize) {
    // a panic of the HARNESS itself (library panics are caught inside exec) must not leave the
    // run waiting for a baton that nobody holds: report it and hand control back to main
    let sh2 = sh.clone();
    if let Err(p) = std::panic::catch_unwind(std::panic::AssertUnwindSafe(move || sim_thread_inner(sh2, me))) {
        let msg = p.downcast_ref::<&str>().map(|s| s.to_string()).or_else(|| p.downcast_ref::<String>().cloned()).unwrap_or_default();
        let mut st = sh.st.lock().unwrap_or_else(|e| e.into_inner());
        st.harness_error = Some(format!("simulated thread {} panicked outside an operation: {}", me, msg));
        st.abort = true;
        drop(st);
        sh.baton.store(MAIN, Ordering::Release);
        sh.main.unpark();
    }
}

extern "C" {
    fn syscall(num: i64, ...) -> i64;
}

extern "C" {
    fn sched_getaffinity(pid: i32, size: usize, mask: *mut u64) -> i32;
    fn sched_setaffinity(pid: i32, size: usize, mask: *const u64) -> i32;
}

/// Restrict the calling thread to `n` of the CPUs it may use now (which ones depends on the
/// thread's index only). Returns whether the restriction is in place.
fn limit_cpus(me: usize, n: u8) -> bool {
    let mut cur = [0u64; 16];
    if unsafe { sched_getaffinity(0, 128, cur.as_mut_ptr()) } != 0 {
        return false;
    }
    let allowed: Vec<usize> = (0..1024).filter(|i| cur[i / 64] >> (i % 64) & 1 == 1).collect();
    if allowed.len() <= n as usize {
        return false;
    }
    let mut new = [0u64; 16];
    for k in 0..n as usize {
        let c = allowed[(me * 5 + k * 3) % allowed.len()];
        new[c / 64] |= 1 << (c % 64);
    }
    unsafe { sched_setaffinity(0, 128, new.as_ptr()) == 0 }
}

/// Is kernel thread `tid` of this process sleeping (state S or D in /proc)? Used by the watchdog
/// only; never enters a result or a recorded decision.
fn thread_sleeps(tid: i64) -> bool {
    if tid <= 0 {
        return false;
    }
    match std::fs::read_to_string(format!("/proc/self/task/{}/stat", tid)) {
        Ok(s) => match s.rfind(')') {
            Some(i) => matches!(s[i + 1..].trim_start().chars().next(), Some('S') | Some('D')),
            None => false,
        },
        Err(_) => false,
    }
}

/// The coverage probe reads the calling thread's memo through the library. On a changed tree
/// that access itself may panic (a per-thread instance that cannot be handed out, a destroyed
/// thread-local): that is for the operations to show (I1), not for the probe to die of.
fn probe_thread_memo() -> Option<Foot> {
    std::panic::catch_unwind(|| Foot::from_view(&DodecahedronProjection::verif_thread_memo_view())).ok()
}

fn sim_thread_inner(sh: Arc<Shared>, me: usize) {
    {
        let tid = unsafe { syscall(186) }; // SYS_gettid on x86_64
        sh.st.lock().unwrap_or_else(|e| e.into_inner()).th[me].tid = tid;
    }
    CTX.with(|c| *c.borrow_mut() = Some((sh.clone(), me)));
    if sh.scen.threads[me].cpus > 0 && limit_cpus(me, sh.scen.threads[me].cpus) {
        sh.st.lock().unwrap_or_else(|e| e.into_inner()).stats.cpu_limited_threads += 1;
    }
    a5::verif::set_hash_key(sh.scen.threads[me].hash_key);
    a5::verif::set_yield_hook(Some(yield_hook));
    let has_exit_ops = !sh.scen.threads[me].exit_ops.is_empty();
    if has_exit_ops && sh.scen.threads[me].exit_guard_early {
        // registered before any library call: destroyed after the library's thread-locals
        EXIT_GUARD.with(|g| *g.borrow_mut() = Some(ExitGuard { sh: sh.clone(), me }));
    }
    sh.wait_baton(me);
    let plan = &sh.scen.threads[me];
    let mut prev_view: Option<Foot> = None;
    'outer: for (i, step) in plan.steps.iter().enumerate() {
        let op = &sh.scen.ops[step.op as usize];
        let probe = sh.scen.probe && op.uses_tl();
        for rep in 0..step.repeat {
            {
                let mut st = sh.st.lock().unwrap_or_else(|e| e.into_inner());
                if st.abort {
                    break 'outer;
                }
                if rep == 0 {
                    if let Some(k) = step.rekey {
                        a5::verif::set_hash_key(k);
                        st.stats.hash_rekey += 1;
                    }
                    if step.clock_jump_ms > 0 && crate::procs::clock_advance(step.clock_jump_ms as i64 * 1_000_000) {
                        st.stats.clock_jumps += 1;
                    }
                    if step.disk_fault != 0 {
                        st.stats.disk_fault_points += 1;
                        if let Some(k) = crate::procs::damage_private_tmp(step.disk_fault) {
                            *st.stats.disk_faults_applied.entry(k.to_string()).or_insert(0) += 1;
                        }
                    }
                }
            }
            if probe && prev_view.is_some() {
                // diagnostic: did anyone else change this thread's memo since its last own op?
                // (not before the first memo op, so that the thread's lazy init runs inside the op)
                SUPPRESS.with(|s| s.set(true));
                let v = probe_thread_memo();
                SUPPRESS.with(|s| s.set(false));
                if let (Some(p), Some(v)) = (prev_view, v) {
                    if p != v {
                        sh.st.lock().unwrap_or_else(|e| e.into_inner()).stats.foreign_memo_change += 1;
                    }
                }
            }
            let inst = op.uses_inst() || op.suppress_yields();
            if inst {
                SUPPRESS.with(|s| s.set(true));
            }
            sh.st.lock().unwrap_or_else(|e| e.into_inner()).th[me].current = Some((i, rep, step.op));
            let got = exec(op, &sh.env);
            if inst {
                SUPPRESS.with(|s| s.set(false));
                if let Op::CrsVertex { inst: Some(k), .. } = op {
                    let g = sh.env.crs[*k as usize % sh.env.crs.len()].lock().unwrap_or_else(|e| e.into_inner());
                    if let Some(c) = g.as_ref() {
                        if c.verif_invocations() == 10_000 {
                            sh.st.lock().unwrap_or_else(|e| e.into_inner()).stats.long_haul_threshold_crossed += 1;
                        }
                    }
                }
            }
            let view = if probe {
                SUPPRESS.with(|s| s.set(true));
                let v = probe_thread_memo();
                SUPPRESS.with(|s| s.set(false));
                prev_view = v;
                v
            } else {
                None
            };
            sh.op_done(me, i, rep, step.op, got, view);
        }
    }
    a5::verif::set_yield_hook(None);
    if has_exit_ops {
        if !plan.exit_guard_early {
            // registered after the last library call: destroyed before the library's thread-locals
            EXIT_GUARD.with(|g| *g.borrow_mut() = Some(ExitGuard { sh: sh.clone(), me }));
        }
        // the guard's destructor issues the exit ops and then gives up the baton
        CTX.with(|c| *c.borrow_mut() = None);
        return;
    }
    sh.finish(me);
    CTX.with(|c| *c.borrow_mut() = None);
}

// ---------------------------------------------------------------------------------------------
// thread-creation seam (see sim/fakeclock.c): threads the library starts inside a call

static PENDING: Mutex<Vec<(i64, Arc<Shared>, usize)>> = Mutex::new(Vec::new());
static NEXT_TOKEN: AtomicU64 = AtomicU64::new(1);

extern "C" fn seam_on_create() -> i64 {
    if IN_SIM_SPAWN.with(|f| f.get()) {
        return -1;
    }
    // only threads created by a simulated thread, i.e. from inside a library call
    let ctx = CTX.with(|c| c.borrow().as_ref().map(|(sh, me)| (sh.clone(), *me)));
    let (sh, _parent) = match ctx {
        Some(x) => x,
        None => return -1,
    };
    if sh.finished.load(Ordering::Acquire) {
        return -1;
    }
    let mut st = sh.st.lock().unwrap_or_else(|e| e.into_inner());
    if st.th.len() >= 250 {
        return -1;
    }
    st.th.push(ThState { life: Life::Live, handle: None, join: None, view: Foot::default(), last_foot: None, blocked: false, tid: 0, current: None });
    let id = st.th.len() - 1;
    if !st.prio.is_empty() {
        // PCT schedule: the newcomer gets the highest or the lowest priority (drawn from the
        // schedule PRNG, so that it is part of the replayable schedule)
        let p = if st.rng.pct(50) {
            st.prio.iter().copied().max().unwrap_or(0) + 1
        } else {
            st.low_water -= 1;
            st.low_water
        };
        st.prio.push(p);
    }
    st.stats.library_threads += 1;
    if st.tracing {
        st.trace.push(format!("library thread t{} created", id));
    }
    drop(st);
    let token = NEXT_TOKEN.fetch_add(1, Ordering::Relaxed) as i64;
    PENDING.lock().unwrap_or_else(|e| e.into_inner()).push((token, sh, id));
    token
}

extern "C" fn seam_child_start(token: i64) {
    let entry = {
        let mut p = PENDING.lock().unwrap_or_else(|e| e.into_inner());
        p.iter().position(|e| e.0 == token).map(|i| p.swap_remove(i))
    };
    if let Some((_, sh, id)) = entry {
        let tid = unsafe { syscall(186) };
        sh.st.lock().unwrap_or_else(|e| e.into_inner()).th[id].tid = tid;
        CTX.with(|c| *c.borrow_mut() = Some((sh.clone(), id)));
        a5::verif::set_yield_hook(Some(yield_hook));
        // the new thread starts parked: it runs when the scheduler picks it
        sh.wait_baton(id);
    }
}

extern "C" fn seam_child_exit(token: i64) {
    if token < 0 {
        // creation failed after registration: retire the entry
        let t = -token - 2;
        let entry = {
            let mut p = PENDING.lock().unwrap_or_else(|e| e.into_inner());
            p.iter().position(|e| e.0 == t).map(|i| p.swap_remove(i))
        };
        if let Some((_, sh, id)) = entry {
            sh.st.lock().unwrap_or_else(|e| e.into_inner()).th[id].life = Life::Exited;
        }
        return;
    }
    let ctx = CTX.with(|c| c.borrow_mut().take());
    a5::verif::set_yield_hook(None);
    if let Some((sh, id)) = ctx {
        if sh.finished.load(Ordering::Acquire) {
            return;
        }
        let holds = sh.baton.load(Ordering::Acquire) == id;
        {
            let mut st = sh.st.lock().unwrap_or_else(|e| e.into_inner());
            st.th[id].life = Life::Exited;
            st.th[id].blocked = false;
        }
        if holds {
            sh.sched_point(id, Point::Exit);
        }
    }
}

fn init_thread_seam() {
    static ONCE: std::sync::Once = std::sync::Once::new();
    ONCE.call_once(|| {
        extern "C" {
            fn dlsym(handle: *mut u8, name: *const u8) -> *mut u8;
        }
        let f = unsafe { dlsym(std::ptr::null_mut(), b"a5sim_set_thread_callbacks\0".as_ptr()) };
        if !f.is_null() {
            type Setter = extern "C" fn(extern "C" fn() -> i64, extern "C" fn(i64), extern "C" fn(i64));
            let set: Setter = unsafe { std::mem::transmute(f) };
            set(seam_on_create, seam_child_start, seam_child_exit);
        }
    });
}

/// Run one scenario under one schedule. Blocks until every simulated thread has exited.
pub fn run(scen: &Scenario, schedule: Schedule, tracing: bool) -> RunOut {
    let n = scen.threads.len();
    let list = match schedule {
        Schedule::Seeded => None,
        Schedule::Strict(l) => Some((l, 0usize, false)),
        Schedule::Lenient(l) => Some((l, 0usize, true)),
    };
    let mut stats = RunStats::default();
    // write-path faults of this scenario (seed 0 = none): set in any case, so that a scenario
    // without them is not hit by the previous one's
    let fired_before = crate::procs::fs_faults_fired();
    // (the worlds of a cold-world chain get theirs from the environment instead)
    let fs_seed = if scen.fs_fault != 0 { scen.fs_fault } else { std::env::var("A5SIM_FS_FAULT").ok().and_then(|s| s.parse().ok()).unwrap_or(0) };
    if crate::procs::fs_fault_set(fs_seed) && fs_seed != 0 {
        stats.fs_write_fault_scenarios = 1;
    }
    stats.yield_hits = vec![0; N_SITES];
    stats.yield_preempts = vec![0; N_SITES];
    if crate::procs::has_private_mounts() {
        stats.private_mount_scenarios = 1;
    }
    let st = State {
        rng: Rng::new(derive(scen.seed ^ scen.sched_salt.rotate_left(32), 0x73636864)),
        list,
        th: (0..n).map(|_| ThState { life: Life::NotStarted, handle: None, join: None, view: Foot::default(), last_foot: None, blocked: false, tid: 0, current: None }).collect(),
        ops_done: 0,
        decisions: Vec::new(),
        reap: None,
        log: H64::new(),
        sched: H64::new(),
        violation: None,
        stats,
        inst_last_user: vec![None; scen.n_inst.max(1) as usize],
        crs_last_user: vec![None; scen.n_crs.max(1) as usize],
        op_threads: vec![0; scen.ops.len()],
        trace: Vec::new(),
        tracing,
        abort: false,
        hung: false,
        exhausted: false,
        prio: Vec::new(),
        change_points: Vec::new(),
        low_water: 0,
        harness_error: None,
    };
    let mut st = st;
    if scen.pct_depth > 0 && st.list.is_none() {
        let mut p: Vec<i64> = (1..=n as i64).collect();
        st.rng.shuffle(&mut p);
        st.prio = p;
        let per_op = if scen.yield_mask != 0 { 10 } else { 1 };
        let est = (scen.total_ops() * per_op).max(4);
        for _ in 1..scen.pct_depth {
            let c = st.rng.below(est);
            st.change_points.push(c);
        }
    }
    init_thread_seam();
    let sh = Arc::new(Shared {
        finished: std::sync::atomic::AtomicBool::new(false),
        dyn_lock: Mutex::new(()),
        dyn_cv: std::sync::Condvar::new(),
        scen: scen.clone(),
        env: Env::new(scen.n_inst.max(1) as usize, scen.n_crs.max(1) as usize),
        st: Mutex::new(st),
        baton: AtomicUsize::new(MAIN),
        main: thread::current(),
        progress: AtomicU64::new(0),
    });
    if n > 0 {
        // park the baton somewhere that is neither MAIN nor a thread until the first decision
        sh.baton.store(MAIN - 1, Ordering::Release);
        sh.sched_point(MAIN, Point::Begin);
        let mut last = sh.progress.load(Ordering::Relaxed);
        // CLOCK_MONOTONIC_RAW: the scenario may make the ordinary clocks jump
        let mut since = crate::procs::raw_now_ns();
        let mut asleep_polls = 0u32;
        let mut polls = 0u64;
        let mut reap_since: i64 = 0;
        while sh.baton.load(Ordering::Acquire) != MAIN {
            if sh.baton.load(Ordering::Acquire) == REAPER {
                if reap_since == 0 {
                    reap_since = crate::procs::raw_now_ns();
                }
                if sh.reap(crate::procs::raw_now_ns() - reap_since) {
                    reap_since = 0;
                    last = sh.progress.load(Ordering::Relaxed);
                    since = crate::procs::raw_now_ns();
                } else {
                    crate::procs::raw_sleep_us(20);
                }
                continue;
            }
            // (a relative sleep: timed parks use absolute deadlines that a clock jump would distort)
            crate::procs::raw_sleep_us(200);
            polls += 1;
            if polls % 10 != 0 {
                continue;
            }
            let p = sh.progress.load(Ordering::Relaxed);
            if p != last {
                last = p;
                since = crate::procs::raw_now_ns();
                asleep_polls = 0;
                continue;
            }
            let idle = Duration::from_nanos((crate::procs::raw_now_ns() - since).max(0) as u64);
            // is the baton holder asleep in the kernel (waiting for a real lock)? A thread that is
            // merely slow is in state R and is left alone.
            let holder_tid = {
                let holder = sh.baton.load(Ordering::Acquire);
                let st = sh.st.lock().unwrap_or_else(|e| e.into_inner());
                if holder != MAIN && holder < st.th.len() { st.th[holder].tid } else { 0 }
            };
            if thread_sleeps(holder_tid) {
                asleep_polls += 1;
            } else {
                asleep_polls = 0;
            }
            if asleep_polls >= 4 || idle > Duration::from_millis(block_ms()) {
                asleep_polls = 0;
                // No scheduling progress: the baton holder waits for a real lock that a parked
                // thread holds (a changed tree may hold a lock across a yield site). Classify it
                // as blocked and let somebody else run; that is a schedule event, not a verdict.
                let holder = sh.baton.load(Ordering::Acquire);
                let mut st = sh.st.lock().unwrap_or_else(|e| e.into_inner());
                if holder != MAIN && holder < st.th.len() && st.th[holder].life == Life::Live && !st.th[holder].blocked {
                    let others = (0..st.th.len()).any(|t| t != holder && sh.runnable(&st, t));
                    if others {
                        st.th[holder].blocked = true;
                        st.stats.blocked_handoffs += 1;
                        let chosen = sh.decide(&mut st, holder, false, 100);
                        if std::env::var_os("A5SIM_DEBUG_STALL").is_some() {
                            eprintln!("DEBUG-WATCHDOG seed={} t{} blocked -> t{} (decisions {})", scen.seed, holder, chosen as isize, st.decisions.len());
                        }
                        if st.tracing {
                            let d = st.decisions.len().saturating_sub(1);
                            st.trace.push(format!("d{} t{} blocked (watchdog) -> t{}", d, holder, chosen as isize));
                        }
                        if chosen != MAIN {
                            st.stats.switches += 1;
                            sh.pass_to(&mut st, chosen);
                            drop(st);
                            since = crate::procs::raw_now_ns();
                            continue;
                        }
                    }
                }
                drop(st);
            }
            if idle > Duration::from_secs(3) && std::env::var_os("A5SIM_DEBUG_STALL").is_some() {
                let st = sh.st.lock().unwrap_or_else(|e| e.into_inner());
                let b = sh.baton.load(Ordering::Acquire);
                let desc: Vec<String> = st.th.iter().enumerate().map(|(i, t)| format!("t{}:{:?}{}{} tid={} sleeps={}", i, t.life, if t.blocked { "/blocked" } else { "" }, if sh.is_dynamic(i) { "/lib" } else { "" }, t.tid, thread_sleeps(t.tid))).collect();
                eprintln!("DEBUG-STALL seed={} baton={} decisions={} abort={} {}", scen.seed, b as isize, st.decisions.len(), st.abort, desc.join(" | "));
            }
            if idle > Duration::from_secs(stall_secs()) {
                // A genuine deadlock, whatever the yield sites: the baton holder sleeps in the kernel
                // (not in the harness: it holds the baton, and the scheduler's own mutex is free or
                // this thread could not look), and every other simulated thread is finished or was
                // itself classified as blocked while it held the baton. Nothing of the harness is
                // waiting for anything, so nobody can ever run again.
                let all_stuck = {
                    let holder = sh.baton.load(Ordering::Acquire);
                    let st = sh.st.lock().unwrap_or_else(|e| e.into_inner());
                    holder != MAIN
                        && holder < st.th.len()
                        && thread_sleeps(st.th[holder].tid)
                        && (0..st.th.len()).all(|t| t == holder || !sh.runnable(&st, t))
                        && (0..st.th.len()).filter(|&t| st.th[t].life == Life::Live).count() >= 2
                };
                if scen.yield_mask != 0 && !all_stuck {
                    // with yield sites on, a stall is treated as the harness's doing: the batch
                    // re-runs the range with yield sites off before anything is concluded
                    eprintln!("STALL seed={} (no scheduling progress for {} s)", scen.seed, stall_secs());
                    std::process::exit(3);
                }
                // I5: threads switch only between whole operations here, nothing of the harness
                // is in the way, and still an operation does not return
                let holder = sh.baton.load(Ordering::Acquire);
                let mut st = sh.st.lock().unwrap_or_else(|e| e.into_inner());
                if st.violation.is_none() && holder != MAIN && holder < st.th.len() {
                    if let Some((step, rep, op_ix)) = st.th[holder].current {
                        let op = &scen.ops[op_ix as usize];
                        let at = st.decisions.len();
                        st.violation = Some(Violation {
                            invariant: "I5".into(),
                            thread: holder,
                            step,
                            rep,
                            op: op.clone(),
                            op_text: op.describe(),
                            got: Outcome::Err(if all_stuck {
                                format!("<deadlock: operation did not return within {} s; every live simulated thread sleeps inside the library waiting for another>", stall_secs())
                            } else {
                                format!("<operation did not return within {} s; no other simulated thread could run>", stall_secs())
                            }),
                            expected: scen.expected[op_ix as usize].clone(),
                            reference: "pristine-process".into(),
                            at_decision: at,
                        });
                    }
                }
                st.hung = true;
                st.abort = true;
                break;
            }
        }
    }
    let joins: Vec<JoinHandle<()>> = {
        let mut st = sh.st.lock().unwrap_or_else(|e| e.into_inner());
        st.th.iter_mut().filter_map(|t| t.join.take()).collect()
    };
    sh.finished.store(true, Ordering::Release);
    {
        let _g = sh.dyn_lock.lock().unwrap_or_else(|e| e.into_inner());
        sh.dyn_cv.notify_all();
    }
    let broken = {
        let st = sh.st.lock().unwrap_or_else(|e| e.into_inner());
        st.harness_error.is_some() || st.hung
    };
    for j in joins {
        // after a harness failure other simulated threads may still be parked: do not wait for them
        if !broken {
            let _ = j.join();
        }
    }
    let mut st = sh.st.lock().unwrap_or_else(|e| e.into_inner());
    st.stats.fs_write_faults_fired = crate::procs::fs_faults_fired().saturating_sub(fired_before);
    crate::procs::fs_fault_set(0);
    if let Some((list, pos, lenient)) = &st.list {
        if !*lenient && st.harness_error.is_none() && st.violation.is_none() && !st.exhausted && *pos != list.len() {
            st.harness_error = Some(format!("replay consumed {} of {} decisions", pos, list.len()));
        }
    }
    RunOut {
        violation: st.violation.clone(),
        decisions: std::mem::take(&mut st.decisions),
        log_hash: st.log.0,
        sched_hash: st.sched.0,
        stats: std::mem::take(&mut st.stats),
        trace: std::mem::take(&mut st.trace),
        harness_error: st.harness_error.clone(),
        schedule_exhausted: st.exhausted,
        hung: st.hung,
    }
}

fn block_ms() -> u64 {
    std::env::var("A5SIM_BLOCK_MS").ok().and_then(|s| s.parse().ok()).unwrap_or(1500)
}

fn stall_secs() -> u64 {
    std::env::var("A5SIM_STALL_SECS").ok().and_then(|s| s.parse().ok()).unwrap_or(30)
}
