//! The operation pool of a batch: a few thousand concrete operations derived from the seed.
//! Scenarios draw from it so that the *same* operation recurs in different threads and at
//! different points of different histories. Every pool entry is screened and given its
//! history-free reference outcome by a pristine child process before any scenario uses it.

use crate::ops::{Op, Target, F};
use crate::rng::Rng;
use a5::coordinate_systems::{Face, LonLat};
use a5::core::constants::DISTANCE_TO_EDGE;
use a5::core::coordinate_transforms::{to_cartesian, to_lon_lat};
use a5::projections::DodecahedronProjection;
use serde::{Deserialize, Serialize};
use std::f64::consts::PI;

#[derive(Clone, Debug, Serialize, Deserialize)]
pub struct PoolOp {
    pub op: Op,
    /// dodecahedron face this op mostly works on (0..11), 255 = none; used to make ops of one
    /// scenario collide on the same memo slots
    pub group: u8,
    /// argument outside the documented domain (fault kind `poison_op`)
    pub poison: Option<String>,
    /// cheap enough to be repeated thousands of times in long-haul mode
    pub cheap: bool,
    /// ops of one family (> 0) have almost-identical arguments: they agree in most of what a
    /// too-coarse cache key would cover and differ in something it might omit
    #[serde(default)]
    pub family: u32,
}

#[derive(Clone, Debug, Serialize, Deserialize)]
pub struct Pool {
    pub seed: u64,
    pub ops: Vec<PoolOp>,
    /// type letter of each family id (index = family id)
    #[serde(default)]
    pub family_types: Vec<u8>,
}

fn push(v: &mut Vec<PoolOp>, op: Op, group: u8) {
    v.push(PoolOp { op, group, poison: None, cheap: false, family: 0 });
}
fn push_poison(v: &mut Vec<PoolOp>, op: Op, group: u8, why: &str) {
    v.push(PoolOp { op, group, poison: Some(why.to_string()), cheap: false, family: 0 });
}

/// Face point that lands in face triangle `tri` (0..9), beyond the face edge iff `reflected`.
pub fn slot_face_point(rng: &mut Rng, tri: usize, reflected: bool) -> (f64, f64) {
    let frac = rng.uniform(0.08, 0.92);
    let gamma = (tri as f64 + frac) * PI / 5.0;
    let two_pi_5 = 2.0 * PI / 5.0;
    let seg = gamma / two_pi_5;
    let beta = (seg - seg.round()) * two_pi_5;
    let d = if reflected { rng.uniform(1.03, 1.35) } else { rng.uniform(0.05, 0.96) } * DISTANCE_TO_EDGE;
    let rho = d / beta.cos();
    (rho * gamma.cos(), rho * gamma.sin())
}

fn special_points() -> Vec<(f64, f64)> {
    let mut v = vec![
        (0.0, 0.0),
        (0.0, 90.0),
        (0.0, -90.0),
        (123.0, 90.0),
        (-77.0, -90.0),
        (180.0, 0.0),
        (-180.0, 0.0),
        (179.999999, 45.0),
        (-179.999999, -45.0),
        (360.0, 10.0),
        (-540.0, -10.0),
        (0.0, 89.999999),
        (0.0, -89.999999),
        (-93.0, 0.0),
        (87.0, 0.0),
    ];
    // seams between faces: meridians on which two face centres are exactly equidistant by
    // symmetry (theta = 18 + 36k degrees, longitude = theta - 93), and midpoints of face pairs
    for k in 0..10 {
        let lon = 18.0 + 36.0 * k as f64 - 93.0;
        for lat in [0.0, 10.0, -10.0, 26.0, -26.0, 45.0, -45.0, 58.0] {
            v.push((lon, lat));
        }
    }
    {
        let o = a5::core::origin::get_origins();
        for i in 0..o.len() {
            for j in (i + 1)..o.len() {
                let (a, b) = (to_cartesian(o[i].axis), to_cartesian(o[j].axis));
                let d = a.x() * b.x() + a.y() * b.y() + a.z() * b.z();
                if d > 0.3 {
                    // adjacent faces: the point half-way between their centres lies on the seam
                    let m = a5::coordinate_systems::Cartesian::new(a.x() + b.x(), a.y() + b.y(), a.z() + b.z());
                    let ll = to_lon_lat(a5::core::coordinate_transforms::to_spherical(m));
                    v.push((ll.longitude(), ll.latitude()));
                }
            }
        }
    }
    // face centres and points close to them (seams and vertices lie between them)
    for o in a5::core::origin::get_origins() {
        let ll = to_lon_lat(o.axis);
        v.push((ll.longitude(), ll.latitude()));
        v.push((ll.longitude() + 31.7, (ll.latitude() * 0.5).clamp(-89.0, 89.0)));
    }
    v
}

fn random_lonlat(rng: &mut Rng) -> (f64, f64) {
    // uniform on the sphere
    let z: f64 = rng.uniform(-1.0, 1.0);
    let lat = z.asin().to_degrees();
    let lon = rng.uniform(-180.0, 180.0);
    (lon, lat)
}

fn pick_res(rng: &mut Rng) -> i32 {
    match rng.below(10) {
        0 => rng.range(-1, 1) as i32,
        1..=4 => rng.range(2, 8) as i32,
        5..=7 => rng.range(9, 20) as i32,
        _ => rng.range(21, 29) as i32,
    }
}

/// Build the pool. Calls into a5 only with arguments inside the documented domain (to derive
/// valid cells and on-sphere points); every generated op is screened out-of-process afterwards.
pub fn build(seed: u64, size: usize) -> Pool {
    let mut rng = Rng::new(crate::rng::derive(seed, 0x706f6f6c));
    let mut ops: Vec<PoolOp> = Vec::new();
    let scale = (size as f64 / 4000.0).max(0.05);
    let n = |base: usize| ((base as f64 * scale).ceil() as usize).max(1);

    // ---- slot-targeted projection ops: every (face, triangle, reflected) at least once
    let mut fresh = DodecahedronProjection::new().expect("projection");
    for origin in 0..12u8 {
        for tri in 0..10usize {
            for reflected in [false, true] {
                let reps = if scale >= 1.0 { 1 + (scale as usize - 1).min(3) } else { 1 };
                for _ in 0..reps {
                    let (x, y) = slot_face_point(&mut rng, tri, reflected);
                    // always on the calling thread's projection; sometimes also on an explicit instance
                    push(&mut ops, Op::Inverse { t: Target::Tl, x: F::of(x), y: F::of(y), origin }, origin);
                    if rng.pct(30) {
                        push(&mut ops, Op::Inverse { t: Target::Inst(rng.below(3) as u8), x: F::of(x), y: F::of(y), origin }, origin);
                    }
                    if let Ok(sp) = fresh.inverse(Face::new(x, y), origin) {
                        let (theta, phi) = (F::of(sp.theta().get()), F::of(sp.phi().get()));
                        push(&mut ops, Op::Forward { t: Target::Tl, theta, phi, origin }, origin);
                        if rng.pct(30) {
                            push(&mut ops, Op::Forward { t: Target::Inst(rng.below(3) as u8), theta, phi, origin }, origin);
                        }
                        if rng.pct(15) {
                            push(&mut ops, Op::Forward { t: Target::Fresh, theta, phi, origin }, origin);
                        }
                    }
                    if rng.pct(15) {
                        push(&mut ops, Op::Inverse { t: Target::Fresh, x: F::of(x), y: F::of(y), origin }, origin);
                    }
                }
            }
        }
    }
    // poison: out-of-range face ids on the projection API, aimed at real slots
    for _ in 0..n(160) {
        let tri = rng.below(10) as usize;
        let reflected = rng.pct(35);
        let (x, y) = slot_face_point(&mut rng, tri, reflected);
        let origin = match rng.below(6) {
            0..=3 => rng.range(12, 23) as u8,
            4 => rng.range(24, 40) as u8,
            _ => 255,
        };
        let t = if rng.pct(75) { Target::Tl } else { Target::Inst(rng.below(3) as u8) };
        if rng.pct(65) {
            push_poison(&mut ops, Op::Inverse { t, x: F::of(x), y: F::of(y), origin }, origin % 12, "origin_out_of_range");
        } else {
            let theta = rng.uniform(-PI, PI);
            let phi = rng.uniform(0.0, PI);
            push_poison(&mut ops, Op::Forward { t, theta: F::of(theta), phi: F::of(phi), origin }, origin % 12, "origin_out_of_range");
        }
    }
    // poison: non-finite / far-out coordinates on the projection API
    for (x, y) in [(f64::NAN, 0.1), (f64::INFINITY, 0.0), (1e300, -1e300), (0.0, 0.0), (-0.0, 0.0), (5.0, 5.0)] {
        let origin = rng.below(12) as u8;
        push_poison(&mut ops, Op::Inverse { t: Target::Tl, x: F::of(x), y: F::of(y), origin }, origin, "face_point_degenerate");
        push_poison(&mut ops, Op::Forward { t: Target::Tl, theta: F::of(x), phi: F::of(y), origin }, origin, "spherical_degenerate");
    }

    // ---- geographic points -> lookups, cells, boundaries
    let mut points = special_points();
    for _ in 0..n(260) {
        points.push(random_lonlat(&mut rng));
    }
    let mut cells: Vec<(u64, u8)> = Vec::new();
    for &(lon, lat) in &points {
        let k = if rng.pct(30) { 2 } else { 1 };
        for _ in 0..k {
            let res = pick_res(&mut rng);
            let group = match a5::lonlat_to_cell(LonLat::new(lon, lat), 0) {
                Ok(c) => (c >> 58) as u8,
                Err(_) => 255,
            };
            push(&mut ops, Op::LonLatToCell { lon: F::of(lon), lat: F::of(lat), res }, group);
            if let Ok(c) = a5::lonlat_to_cell(LonLat::new(lon, lat), res) {
                cells.push((c, group));
            }
        }
    }
    for &(lon, lat) in points.iter().take(12) {
        for res in [-5, 30, 31, 64, 1000, 1025, 5000, 100000] {
            push_poison(&mut ops, Op::LonLatToCell { lon: F::of(lon), lat: F::of(lat), res }, 255, "resolution_out_of_range");
        }
    }
    for (lon, lat) in [(f64::NAN, 0.0), (0.0, f64::NAN), (f64::INFINITY, 0.0), (1e300, 0.0), (0.0, 91.0), (0.0, -1e9)] {
        push_poison(&mut ops, Op::LonLatToCell { lon: F::of(lon), lat: F::of(lat), res: rng.range(0, 12) as i32 }, 255, "coordinate_out_of_range");
    }
    push(&mut ops, Op::GetRes0Cells, 255);
    if let Ok(r0) = a5::get_res0_cells() {
        for c in r0 {
            cells.push((c, (c >> 58) as u8));
        }
    }
    cells.push((0, 255)); // world cell
    let base_cells = cells.clone();
    for &(c, g) in &base_cells {
        push(&mut ops, Op::CellToLonLat { cell: c }, g);
        match rng.below(4) {
            0 => push(&mut ops, Op::CellToBoundaryDefault { cell: c }, g),
            1 => push(&mut ops, Op::CellToBoundary { cell: c, closed: rng.pct(50), segments: None }, g),
            _ => push(
                &mut ops,
                Op::CellToBoundary { cell: c, closed: rng.pct(50), segments: Some(rng.range(1, 8) as i32) },
                g,
            ),
        }
        let r = a5::get_resolution(c);
        if rng.pct(40) {
            push(&mut ops, Op::GetResolution { cell: c }, g);
            push(&mut ops, Op::Deserialize { cell: c }, g);
        }
        if rng.pct(50) {
            let target = if rng.pct(30) { None } else { Some((r + rng.range(0, 4) as i32).min(30)) };
            push(&mut ops, Op::CellToChildren { cell: c, res: target }, g);
        }
        if rng.pct(50) && r >= 0 {
            let target = if rng.pct(30) { None } else { Some(rng.range(-1, r as i64) as i32) };
            push(&mut ops, Op::CellToParent { cell: c, res: target }, g);
        }
        if rng.pct(25) {
            push(&mut ops, Op::U64ToHex { v: c }, 255);
            push(&mut ops, Op::HexToU64 { s: a5::u64_to_hex(c) }, 255);
        }
        if rng.pct(30) && r >= 0 {
            if let Ok(d) = a5::core::serialization::deserialize(c) {
                let (lon, lat) = *rng.pick(&points);
                let op = Op::ContainsPoint { origin: d.origin_id, segment: d.segment as u32, s: d.s, res: d.resolution, lon: F::of(lon), lat: F::of(lat) };
                push(&mut ops, op, g);
                if let Ok(ctr) = a5::cell_to_lonlat(c) {
                    let op = Op::ContainsPoint { origin: d.origin_id, segment: d.segment as u32, s: d.s, res: d.resolution, lon: F::of(ctr.longitude()), lat: F::of(ctr.latitude()) };
                    push(&mut ops, op, g);
                }
                push(&mut ops, Op::GetPentagon { origin: d.origin_id, segment: d.segment as u32, s: d.s, res: d.resolution }, g);
                push(&mut ops, Op::Serialize { origin: d.origin_id, segment: d.segment as u32, s: d.s, res: d.resolution }, g);
            }
        }
    }
    // poison cells: random bit patterns, bad faces, marker-less patterns
    for _ in 0..n(60) {
        let c = match rng.below(5) {
            0 => rng.next_u64(),
            1 => (rng.range(60, 63) as u64) << 58 | 1u64 << rng.below(58),
            2 => rng.next_u64() & !0xfff,
            3 => 1u64 << rng.below(64),
            _ => (rng.below(60)) << 58 | rng.next_u64() >> 8 | 2,
        };
        let why = "cell_bit_pattern";
        match rng.below(6) {
            0 => push_poison(&mut ops, Op::CellToLonLat { cell: c }, 255, why),
            1 => push_poison(&mut ops, Op::CellToBoundary { cell: c, closed: true, segments: Some(1) }, 255, why),
            2 => push_poison(&mut ops, Op::CellToParent { cell: c, res: None }, 255, why),
            3 => push_poison(&mut ops, Op::CellToChildren { cell: c, res: None }, 255, why),
            4 => push_poison(&mut ops, Op::Deserialize { cell: c }, 255, why),
            _ => push_poison(&mut ops, Op::GetResolution { cell: c }, 255, why),
        }
    }
    // known divergent pattern of the unchanged tree (resolution decodes to -1, id != 0): must be
    // screened out by the sandboxed reference runner, never executed in-process
    push_poison(&mut ops, Op::CellToLonLat { cell: 0x6400000000000000 }, 255, "cell_bit_pattern");
    push_poison(&mut ops, Op::CellToBoundary { cell: 0x6400000000000000, closed: true, segments: Some(-3) }, 255, "cell_bit_pattern");
    for &(c, g) in base_cells.iter().take(10) {
        push_poison(&mut ops, Op::CellToBoundary { cell: c, closed: true, segments: Some(0) }, g, "segments_out_of_range");
        push_poison(&mut ops, Op::CellToBoundary { cell: c, closed: false, segments: Some(-1) }, g, "segments_out_of_range");
        push_poison(&mut ops, Op::CellToChildren { cell: c, res: Some(31) }, g, "resolution_out_of_range");
        push_poison(&mut ops, Op::CellToParent { cell: c, res: Some(-2) }, g, "resolution_out_of_range");
        push_poison(&mut ops, Op::CellToParent { cell: c, res: Some(30) }, g, "resolution_out_of_range");
    }

    // ---- compaction
    for _ in 0..n(120) {
        let &(c, g) = rng.pick(&base_cells);
        let r = a5::get_resolution(c);
        if r > 26 {
            continue;
        }
        let depth = rng.range(1, 3) as i32;
        let mut set = match a5::cell_to_children(c, Some(r + depth)) {
            Ok(v) => v,
            Err(_) => continue,
        };
        if set.len() > 320 {
            continue;
        }
        // delete some, re-add coarser siblings, duplicate, shuffle
        if rng.pct(60) {
            let drop = rng.below(set.len() as u64 / 2 + 1) as usize;
            for _ in 0..drop {
                let i = rng.below(set.len() as u64) as usize;
                set.swap_remove(i);
            }
        }
        if rng.pct(30) {
            if let Ok(mid) = a5::cell_to_children(c, Some(r + 1)) {
                set.push(*rng.pick(&mid));
            }
        }
        if rng.pct(30) && !set.is_empty() {
            let d = *rng.pick(&set);
            set.push(d);
        }
        if set.is_empty() {
            continue;
        }
        rng.shuffle(&mut set);
        push(&mut ops, Op::Compact { cells: set.clone() }, g);
        if rng.pct(40) {
            let mut sorted = set.clone();
            sorted.sort_unstable();
            push(&mut ops, Op::Compact { cells: sorted }, g);
        }
        if rng.pct(50) {
            let few: Vec<u64> = set.iter().copied().take(rng.range(1, 6) as usize).collect();
            let finest = few.iter().map(|x| a5::get_resolution(*x)).max().unwrap_or(0);
            let target = finest + rng.range(-1, 2) as i32;
            push(&mut ops, Op::Uncompact { cells: few, res: target.min(30) }, g);
        }
    }
    if let Ok(r0) = a5::get_res0_cells() {
        push(&mut ops, Op::Compact { cells: r0.clone() }, 255);
        let mut r1 = Vec::new();
        for c in &r0 {
            if let Ok(ch) = a5::cell_to_children(*c, Some(1)) {
                r1.extend(ch);
            }
        }
        rng.shuffle(&mut r1);
        push(&mut ops, Op::Compact { cells: r1.clone() }, 255);
        r1.truncate(59);
        push(&mut ops, Op::Compact { cells: r1 }, 255);
        push(&mut ops, Op::Uncompact { cells: vec![0], res: 1 }, 255);
        push(&mut ops, Op::Uncompact { cells: r0, res: 2 }, 255);
    }
    if let Ok(r0) = a5::get_res0_cells() {
        // sets mixing base cells, quintants and finer cells of several faces
        for _ in 0..n(30) {
            let mut set: Vec<u64> = Vec::new();
            for b in &r0 {
                match rng.below(5) {
                    0 => set.push(*b),
                    1 => {
                        if let Ok(q) = a5::cell_to_children(*b, Some(1)) {
                            let keep = rng.range(3, 5) as usize;
                            set.extend(q.iter().take(keep));
                        }
                    }
                    2 => {
                        if let Ok(q) = a5::cell_to_children(*b, Some(1)) {
                            if let Ok(k) = a5::cell_to_children(*rng.pick(&q), Some(rng.range(2, 3) as i32)) {
                                let keep = if rng.pct(70) { k.len() } else { k.len() - 1 };
                                set.extend(k.iter().take(keep));
                            }
                        }
                    }
                    _ => {}
                }
            }
            if set.len() >= 2 {
                rng.shuffle(&mut set);
                push(&mut ops, Op::Compact { cells: set }, 255);
            }
        }
    }
    push(&mut ops, Op::Compact { cells: vec![] }, 255);
    push_poison(&mut ops, Op::Compact { cells: vec![rng.next_u64(), rng.next_u64(), 0, 0] }, 255, "cell_bit_pattern");
    push_poison(&mut ops, Op::Uncompact { cells: vec![rng.next_u64() | 1 << 40], res: 3 }, 255, "cell_bit_pattern");

    // ---- metadata and hex
    for res in -2..=31 {
        push(&mut ops, Op::CellArea { res }, 255);
        push(&mut ops, Op::GetNumCells { res }, 255);
    }
    for s in ["", "0", "ffffffffffffffff", "10000000000000000", "xyz", "0x10", "-1", "+5", " 1", "é", "00000000000000000001", "DEADBEEF"] {
        let poison = u64::from_str_radix(s, 16).is_err();
        let op = Op::HexToU64 { s: s.to_string() };
        if poison {
            push_poison(&mut ops, op, 255, "hex_string");
        } else {
            push(&mut ops, op, 255);
        }
    }

    // ---- single-lazy-table module functions
    push(&mut ops, Op::OriginsDigest, 255);
    push(&mut ops, Op::PentagonDigest, 255);
    push(&mut ops, Op::FaceVertices, 255);
    for q in 0..5 {
        push(&mut ops, Op::QuintantVertices { q }, 255);
    }
    push_poison(&mut ops, Op::QuintantVertices { q: 5 }, 255, "quintant_out_of_range");
    for origin in 0..12u8 {
        for q in 0..5u32 {
            push(&mut ops, Op::QuintantToSegment { quintant: q, origin }, origin);
            push(&mut ops, Op::SegmentToQuintant { segment: q, origin }, origin);
        }
    }
    push_poison(&mut ops, Op::QuintantToSegment { quintant: 7, origin: 3 }, 3, "quintant_out_of_range");
    push_poison(&mut ops, Op::SegmentToQuintant { segment: 2, origin: 12 }, 0, "origin_out_of_range");
    push_poison(&mut ops, Op::Serialize { origin: 12, segment: 0, s: 0, res: 3 }, 0, "origin_out_of_range");
    push_poison(&mut ops, Op::Serialize { origin: 3, segment: 9, s: 1 << 40, res: 5 }, 3, "s_out_of_range");
    push_poison(&mut ops, Op::Serialize { origin: 3, segment: 1, s: 0, res: 31 }, 3, "resolution_out_of_range");
    for _ in 0..n(60) {
        let (lon, lat) = random_lonlat(&mut rng);
        let theta = (lon + 93.0).to_radians();
        let phi = (90.0 - lat).to_radians();
        push(&mut ops, Op::FindNearestOrigin { theta: F::of(theta), phi: F::of(phi) }, 255);
    }
    for _ in 0..n(80) {
        let res = rng.range(1, 28) as u32;
        let side = (1u64 << res) as f64;
        let i = rng.uniform(0.0, side);
        let j = rng.uniform(0.0, side - i);
        let orient = rng.below(6) as u8;
        push(&mut ops, Op::IjToS { x: F::of(i), y: F::of(j), res, orient }, 255);
        let s = rng.next_u64() & ((1u64 << (2 * res)) - 1);
        push(&mut ops, Op::SToAnchor { s, res, orient }, 255);
        if rng.pct(40) {
            push(&mut ops, Op::PentagonVertices { res: res as i32, quintant: rng.below(5) as u32, s, ares: res, orient }, 255);
        }
        if rng.pct(30) {
            push(&mut ops, Op::FaceToIj { x: F::of(rng.uniform(-1.0, 1.0)), y: F::of(rng.uniform(-1.0, 1.0)) }, 255);
            push(&mut ops, Op::IjToFace { x: F::of(i), y: F::of(j) }, 255);
            push(&mut ops, Op::QuintantPolar { rho: F::of(rng.uniform(0.0, 1.0)), gamma: F::of(rng.uniform(-PI, PI)) }, 255);
        }
    }

    // ---- explicit CRS instances: lookups that succeed, that fail, and cheap ones for long-haul
    for o in a5::core::origin::get_origins() {
        let c = to_cartesian(o.axis);
        let inst = Some(rng.below(2) as u8);
        ops.push(PoolOp { op: Op::CrsVertex { inst, x: F::of(c.x()), y: F::of(c.y()), z: F::of(c.z()) }, group: o.id, poison: None, cheap: true, family: 0 });
        let e = 3e-6;
        ops.push(PoolOp { op: Op::CrsVertex { inst, x: F::of(c.x() + e), y: F::of(c.y() - e), z: F::of(c.z()) }, group: o.id, poison: None, cheap: true, family: 0 });
        ops.push(PoolOp { op: Op::CrsVertex { inst, x: F::of(c.x() + 1e-3), y: F::of(c.y()), z: F::of(c.z()) }, group: o.id, poison: Some("crs_point_off_frame".into()), cheap: true, family: 0 });
        if rng.pct(30) {
            push(&mut ops, Op::CrsVertex { inst: None, x: F::of(c.x()), y: F::of(c.y()), z: F::of(c.z()) }, o.id);
        }
    }

    // ---- stateless controls
    for _ in 0..n(30) {
        let phi = rng.uniform(-PI / 2.0, PI / 2.0);
        push(&mut ops, Op::Authalic { fwd: rng.pct(50), phi: F::of(phi) }, 255);
        let (lon, lat) = random_lonlat(&mut rng);
        push(&mut ops, Op::FromLonLat { lon: F::of(lon), lat: F::of(lat) }, 255);
        push(&mut ops, Op::ToLonLat { theta: F::of(rng.uniform(-PI, PI)), phi: F::of(rng.uniform(0.0, PI)) }, 255);
    }
    for _ in 0..n(12) {
        let (lon0, lat0) = if rng.pct(50) { (179.0, rng.uniform(-60.0, 60.0)) } else { random_lonlat(&mut rng) };
        let pts: Vec<(F, F)> = (0..rng.range(3, 7))
            .map(|_| (F::of(lon0 + rng.uniform(-3.0, 3.0)), F::of((lat0 + rng.uniform(-3.0, 3.0)).clamp(-90.0, 90.0))))
            .collect();
        push(&mut ops, Op::NormalizeLongitudes { pts }, 255);
        let tri: Vec<(F, F, F)> = (0..rng.range(3, 5))
            .map(|_| {
                let (lon, lat) = random_lonlat(&mut rng);
                let (t, p) = ((lon).to_radians(), (90.0 - lat).to_radians());
                (F::of(p.sin() * t.cos()), F::of(p.sin() * t.sin()), F::of(p.cos()))
            })
            .collect();
        push(&mut ops, Op::SphPolyArea { pts: tri }, 255);
    }

    // ---- families of near-identical calls (a too-coarse cache key shows only when such calls
    //      follow each other)
    let mut fam: u32 = 0;
    // family id -> family type letter (index 0 unused)
    let mut fam_types: Vec<u8> = vec![0];
    #[allow(unused_assignments)]
    let mut cur_type: u8 = b'a';
    let pushf = |ops: &mut Vec<PoolOp>, op: Op, group: u8, family: u32| {
        ops.push(PoolOp { op, group, poison: None, cheap: false, family });
    };
    cur_type = b'a';
    // (a) points a hair's breadth apart, on both sides of a cell edge, same resolution
    for _ in 0..n(70) {
        let &(c, g) = rng.pick(&base_cells);
        let r = a5::get_resolution(c);
        if r < 1 {
            continue;
        }
        let (ctr, ring) = match (a5::cell_to_lonlat(c), a5::cell_to_boundary(c, Some(a5::core::cell::CellToBoundaryOptions { closed_ring: false, segments: Some(2) }))) {
            (Ok(a), Ok(b)) if !b.is_empty() => (a, b),
            _ => continue,
        };
        let v = *rng.pick(&ring);
        if ctr.latitude().abs() > 85.0 || (v.longitude() - ctr.longitude()).abs() > 90.0 {
            continue;
        }
        fam += 1;
        fam_types.push(cur_type);
        let (dx, dy) = (ctr.longitude() - v.longitude(), ctr.latitude() - v.latitude());
        for eps in [1e-7, -1e-7, 1e-5, -1e-5, 1e-4, -1e-4, 1e-3, -1e-3, 1e-2, -1e-2] {
            if rng.pct(35) {
                continue;
            }
            let (lon, lat) = (v.longitude() + eps * dx, (v.latitude() + eps * dy).clamp(-90.0, 90.0));
            pushf(&mut ops, Op::LonLatToCell { lon: F::of(lon), lat: F::of(lat), res: r }, g, fam);
            if rng.pct(15) {
                pushf(&mut ops, Op::LonLatToCell { lon: F::of(lon), lat: F::of(lat), res: (r + 1).min(29) }, g, fam);
            }
        }
        // bitwise neighbours of one point
        let lon1 = f64::from_bits(v.longitude().to_bits() + 1);
        pushf(&mut ops, Op::LonLatToCell { lon: F::of(v.longitude()), lat: F::of(v.latitude()), res: r }, g, fam);
        pushf(&mut ops, Op::LonLatToCell { lon: F::of(lon1), lat: F::of(v.latitude()), res: r }, g, fam);
    }
    cur_type = b'b';
    // (b) one cell, every boundary option; the same curve position on other faces / segments
    for _ in 0..n(40) {
        let &(c, g) = rng.pick(&base_cells);
        let d = match a5::core::serialization::deserialize(c) {
            Ok(d) if d.resolution >= 0 => d,
            _ => continue,
        };
        fam += 1;
        fam_types.push(cur_type);
        pushf(&mut ops, Op::CellToBoundaryDefault { cell: c }, g, fam);
        for (closed, seg) in [(true, Some(1)), (false, Some(1)), (true, Some(2)), (false, Some(3)), (true, None), (false, None)] {
            if rng.pct(60) {
                pushf(&mut ops, Op::CellToBoundary { cell: c, closed, segments: seg }, g, fam);
            }
        }
        pushf(&mut ops, Op::CellToLonLat { cell: c }, g, fam);
        fam += 1;
        fam_types.push(cur_type);
        for _ in 0..3 {
            let o2 = rng.below(12) as u8;
            let seg2 = if d.resolution == 0 { 0 } else { rng.below(5) as usize };
            let twin = a5::core::utils::A5Cell { origin_id: o2, segment: seg2, s: d.s, resolution: d.resolution };
            if let Ok(c2) = a5::core::serialization::serialize(&twin) {
                pushf(&mut ops, Op::CellToLonLat { cell: c2 }, o2, fam);
                pushf(&mut ops, Op::CellToBoundary { cell: c2, closed: true, segments: Some(1) }, o2, fam);
                pushf(&mut ops, Op::GetPentagon { origin: o2, segment: seg2 as u32, s: d.s, res: d.resolution }, o2, fam);
                pushf(&mut ops, Op::CellToParent { cell: c2, res: None }, o2, fam);
                pushf(&mut ops, Op::CellToChildren { cell: c2, res: None }, o2, fam);
            }
        }
        pushf(&mut ops, Op::CellToLonLat { cell: c }, g, fam);
        pushf(&mut ops, Op::CellToParent { cell: c, res: None }, g, fam);
        pushf(&mut ops, Op::CellToChildren { cell: c, res: None }, g, fam);
        for dr in 0..3 {
            pushf(&mut ops, Op::CellToChildren { cell: c, res: Some((d.resolution + dr).min(30)) }, g, fam);
            pushf(&mut ops, Op::CellToParent { cell: c, res: Some((d.resolution - dr).max(-1)) }, g, fam);
        }
    }
    cur_type = b'f';
    // (f) "label and outline" on two cells: centre and boundary of X and of a second cell Y (the
    //     minimal two-keys-two-functions contention pattern)
    for _ in 0..n(40) {
        let &(x, g) = rng.pick(&base_cells);
        let &(y0, _) = rng.pick(&base_cells);
        let rx = a5::get_resolution(x);
        if rx < 0 {
            continue;
        }
        // Y: a sibling of X if possible, else any other cell
        let y = match a5::cell_to_parent(x, None).and_then(|p| a5::cell_to_children(p, None)) {
            Ok(ch) if ch.len() > 1 && rng.pct(60) => *rng.pick(&ch),
            _ => y0,
        };
        if y == x || y == 0 {
            continue;
        }
        fam += 1;
        fam_types.push(cur_type);
        for c in [x, y] {
            pushf(&mut ops, Op::CellToLonLat { cell: c }, g, fam);
            pushf(&mut ops, Op::CellToBoundary { cell: c, closed: true, segments: Some(1) }, g, fam);
        }
        if rng.pct(50) {
            pushf(&mut ops, Op::CellToBoundaryDefault { cell: x }, g, fam);
        }
    }
    cur_type = b'g';
    // (g) cell ids that agree in everything but ONE curve digit (top, middle or bottom of the
    //     position field): what a hash or a truncated key of the position would confuse
    for _ in 0..n(50) {
        let &(c, g) = rng.pick(&base_cells);
        let d = match a5::core::serialization::deserialize(c) {
            Ok(d) if d.resolution >= 3 => d,
            _ => continue,
        };
        fam += 1;
        fam_types.push(cur_type);
        let levels = (d.resolution - 1) as u32; // quaternary digits of s
        pushf(&mut ops, Op::CellToLonLat { cell: c }, g, fam);
        pushf(&mut ops, Op::CellToBoundary { cell: c, closed: true, segments: Some(1) }, g, fam);
        let orient = rng.below(6) as u8;
        pushf(&mut ops, Op::SToAnchor { s: d.s, res: levels, orient }, 255, fam);
        for lvl in [levels - 1, levels.saturating_sub(2), levels / 2, 1, 0] {
            if lvl >= levels {
                continue;
            }
            let s2 = d.s ^ ((1 + rng.below(3)) << (2 * lvl));
            let twin = a5::core::utils::A5Cell { origin_id: d.origin_id, segment: d.segment, s: s2, resolution: d.resolution };
            if let Ok(c2) = a5::core::serialization::serialize(&twin) {
                pushf(&mut ops, Op::CellToLonLat { cell: c2 }, g, fam);
                if rng.pct(60) {
                    pushf(&mut ops, Op::CellToBoundary { cell: c2, closed: true, segments: Some(1) }, g, fam);
                }
                if rng.pct(40) {
                    pushf(&mut ops, Op::GetPentagon { origin: d.origin_id, segment: d.segment as u32, s: s2, res: d.resolution }, g, fam);
                }
                pushf(&mut ops, Op::SToAnchor { s: s2, res: levels, orient }, 255, fam);
                if rng.pct(30) {
                    if let Ok(ctr) = a5::cell_to_lonlat(c2) {
                        pushf(&mut ops, Op::LonLatToCell { lon: F::of(ctr.longitude()), lat: F::of(ctr.latitude()), res: d.resolution }, g, fam);
                    }
                }
            }
        }
    }
    cur_type = b'h';
    // (h) neighbours across the discontinuities of the coordinate system: the antimeridian and
    //     the poles (cells and points a few metres to kilometres apart whose longitudes differ by
    //     ~360 or ~180 degrees)
    for _ in 0..n(50) {
        fam += 1;
        fam_types.push(cur_type);
        let r = rng.range(6, 24) as i32;
        let eps = 10f64.powf(rng.uniform(-6.0, -1.0));
        let pts: Vec<(f64, f64)> = if rng.pct(70) {
            let lat = rng.uniform(-80.0, 80.0);
            vec![(180.0 - eps, lat), (-180.0 + eps, lat), (180.0, lat), (-180.0, lat), (180.0 + eps, lat), (179.0, lat)]
        } else {
            let lon = rng.uniform(-180.0, 180.0);
            let s = if rng.pct(50) { 1.0 } else { -1.0 };
            vec![(lon, s * (90.0 - eps)), (lon + 180.0, s * (90.0 - eps)), (lon + 90.0, s * (90.0 - eps)), (lon, s * 90.0), (0.0, s * 90.0)]
        };
        for (lon, lat) in pts {
            pushf(&mut ops, Op::LonLatToCell { lon: F::of(lon), lat: F::of(lat), res: r }, 255, fam);
            if let Ok(c) = a5::lonlat_to_cell(LonLat::new(lon, lat), r) {
                let g = (c >> 58) as u8 / 5;
                pushf(&mut ops, Op::CellToBoundary { cell: c, closed: true, segments: Some(1) }, g, fam);
                if rng.pct(50) {
                    pushf(&mut ops, Op::CellToBoundaryDefault { cell: c }, g, fam);
                }
                pushf(&mut ops, Op::CellToLonLat { cell: c }, g, fam);
            }
        }
    }
    cur_type = b'i';
    // (i) calls with BIG results (4^9 cells, 2 MB) next to the same call one level shallower:
    //     caches with a memory cap, buffers that are reused instead of reallocated
    for _ in 0..3 {
        let &(c, g) = rng.pick(&base_cells);
        let r = a5::get_resolution(c);
        if !(2..=20).contains(&r) {
            continue;
        }
        fam += 1;
        fam_types.push(cur_type);
        pushf(&mut ops, Op::CellToChildren { cell: c, res: Some(r + 9) }, g, fam);
        pushf(&mut ops, Op::CellToChildren { cell: c, res: Some(r + 1) }, g, fam);
        pushf(&mut ops, Op::Uncompact { cells: vec![c], res: r + 9 }, g, fam);
        pushf(&mut ops, Op::Uncompact { cells: vec![c], res: r + 2 }, g, fam);
        // a boundary with thousands of vertices (a library may split such work between threads)
        pushf(&mut ops, Op::CellToBoundary { cell: c, closed: true, segments: Some(1000) }, g, fam);
        pushf(&mut ops, Op::CellToBoundary { cell: c, closed: false, segments: Some(820) }, g, fam);
        // a BIG input as well (4^8 cells to compact), next to small mixed-resolution inputs
        if let Ok(many) = a5::cell_to_children(c, Some(r + 8)) {
            // ... and look-alikes of it: same length, same first and last element, different
            // content in between (one member replaced by a copy of its neighbour; one member
            // replaced by a cell from elsewhere; two members swapped) - what a caller that
            // edits its buffer in place passes next
            let mid = many.len() / 2 + (rng.below(64) as usize);
            let mut dup = many.clone();
            dup[mid] = dup[mid - 1];
            let mut alien = many.clone();
            alien[mid / 2] = rng.pick(&base_cells).0;
            let mut swapped = many.clone();
            swapped.swap(mid / 3, mid);
            pushf(&mut ops, Op::Compact { cells: many }, g, fam);
            pushf(&mut ops, Op::Compact { cells: dup }, g, fam);
            pushf(&mut ops, Op::Compact { cells: alien }, g, fam);
            pushf(&mut ops, Op::Compact { cells: swapped }, g, fam);
        }
        // the same for a medium-sized input (4^5 = 1024 or 4^6 = 4096 cells)
        if let Ok(mediumset) = a5::cell_to_children(c, Some(r + rng.range(5, 6) as i32)) {
            let mid = mediumset.len() / 2 + (rng.below(16) as usize);
            let mut dup = mediumset.clone();
            dup[mid] = dup[mid + 1];
            let mut shorter = mediumset.clone();
            shorter.remove(mid);
            pushf(&mut ops, Op::Compact { cells: mediumset.clone() }, g, fam);
            pushf(&mut ops, Op::Compact { cells: dup }, g, fam);
            pushf(&mut ops, Op::Compact { cells: shorter.clone() }, g, fam);
            pushf(&mut ops, Op::Uncompact { cells: shorter, res: r + 6 }, g, fam);
            pushf(&mut ops, Op::Uncompact { cells: mediumset, res: r + 6 }, g, fam);
        }
        if let Ok(r0) = a5::get_res0_cells() {
            for _ in 0..4 {
                // base cells of some faces + a complete or incomplete group of finer cells elsewhere
                let mut set: Vec<u64> = Vec::new();
                for b in &r0 {
                    if rng.pct(40) {
                        set.push(*b);
                    }
                }
                let face = *rng.pick(&r0);
                if let Ok(q) = a5::cell_to_children(face, Some(1)) {
                    let qc = *rng.pick(&q);
                    if let Ok(kids) = a5::cell_to_children(qc, Some(rng.range(2, 3) as i32)) {
                        let take = if rng.pct(60) { kids.len() } else { kids.len() - 1 };
                        set.retain(|x| *x != face);
                        set.extend(kids.iter().take(take));
                    }
                }
                if set.len() >= 2 {
                    rng.shuffle(&mut set);
                    pushf(&mut ops, Op::Compact { cells: set }, g, fam);
                }
            }
        }
    }
    cur_type = b'c';
    // (c) projection: one face point under every face id; one point and its bitwise neighbours
    for _ in 0..n(30) {
        fam += 1;
        fam_types.push(cur_type);
        let tri = rng.below(10) as usize;
        let refl = rng.pct(40);
        let (x, y) = slot_face_point(&mut rng, tri, refl);
        for origin in 0..12u8 {
            if rng.pct(50) {
                pushf(&mut ops, Op::Inverse { t: Target::Tl, x: F::of(x), y: F::of(y), origin }, origin, fam);
            }
        }
        let o = rng.below(12) as u8;
        let x1 = f64::from_bits(x.to_bits() + 1);
        let y1 = f64::from_bits(y.to_bits().wrapping_sub(1));
        pushf(&mut ops, Op::Inverse { t: Target::Tl, x: F::of(x1), y: F::of(y), origin: o }, o, fam);
        pushf(&mut ops, Op::Inverse { t: Target::Tl, x: F::of(x), y: F::of(y1), origin: o }, o, fam);
        pushf(&mut ops, Op::Inverse { t: Target::Tl, x: F::of(x), y: F::of(y), origin: o }, o, fam);
        pushf(&mut ops, Op::Inverse { t: Target::Tl, x: F::of(-x), y: F::of(y), origin: o }, o, fam);
        pushf(&mut ops, Op::Inverse { t: Target::Tl, x: F::of(x), y: F::of(-y), origin: o }, o, fam);
        if let Ok(sp) = fresh.inverse(Face::new(x, y), o) {
            let (t, p) = (sp.theta().get(), sp.phi().get());
            for origin in 0..12u8 {
                if rng.pct(30) {
                    pushf(&mut ops, Op::Forward { t: Target::Tl, theta: F::of(t), phi: F::of(p), origin }, origin, fam);
                }
            }
            pushf(&mut ops, Op::Forward { t: Target::Tl, theta: F::of(t), phi: F::of(p), origin: o }, o, fam);
            pushf(&mut ops, Op::Forward { t: Target::Tl, theta: F::of(f64::from_bits(t.to_bits() + 1)), phi: F::of(p), origin: o }, o, fam);
            pushf(&mut ops, Op::Forward { t: Target::Tl, theta: F::of(t + 2.0 * PI), phi: F::of(p), origin: o }, o, fam);
        }
    }
    cur_type = b'd';
    // (d) curve functions: one position / point under every orientation and neighbouring depths
    for _ in 0..n(20) {
        fam += 1;
        fam_types.push(cur_type);
        let res = rng.range(2, 20) as u32;
        let side = (1u64 << res) as f64;
        let i = rng.uniform(0.0, side);
        let j = rng.uniform(0.0, side - i);
        let s0 = rng.next_u64() & ((1u64 << (2 * res)) - 1);
        for orient in 0..6u8 {
            pushf(&mut ops, Op::IjToS { x: F::of(i), y: F::of(j), res, orient }, 255, fam);
            pushf(&mut ops, Op::SToAnchor { s: s0, res, orient }, 255, fam);
        }
        pushf(&mut ops, Op::SToAnchor { s: s0, res: res + 1, orient: 0 }, 255, fam);
        pushf(&mut ops, Op::SToAnchor { s: s0 ^ 1, res, orient: 0 }, 255, fam);
        pushf(&mut ops, Op::IjToS { x: F::of(i), y: F::of(j), res: res + 1, orient: 0 }, 255, fam);
    }
    cur_type = b'e';
    // (e) compaction: one set, a permutation of it, and the set with one member changed
    for _ in 0..n(20) {
        let &(c, g) = rng.pick(&base_cells);
        let r = a5::get_resolution(c);
        if !(0..=24).contains(&r) {
            continue;
        }
        if let Ok(mut set) = a5::cell_to_children(c, Some(r + 2)) {
            if set.len() < 4 || set.len() > 100 {
                continue;
            }
            fam += 1;
        fam_types.push(cur_type);
            pushf(&mut ops, Op::Compact { cells: set.clone() }, g, fam);
            rng.shuffle(&mut set);
            pushf(&mut ops, Op::Compact { cells: set.clone() }, g, fam);
            let mut minus = set.clone();
            minus.pop();
            pushf(&mut ops, Op::Compact { cells: minus.clone() }, g, fam);
            let mut dup = set.clone();
            dup.push(set[0]);
            pushf(&mut ops, Op::Compact { cells: dup }, g, fam);
            // same length as the full set, but one member missing and another one repeated; all
            // copies of one member; the sorted forms of both
            let mut minus_dup = minus.clone();
            minus_dup.push(minus[rng.below(minus.len() as u64) as usize]);
            pushf(&mut ops, Op::Compact { cells: minus_dup.clone() }, g, fam);
            let mut md_sorted = minus_dup.clone();
            md_sorted.sort_unstable();
            pushf(&mut ops, Op::Compact { cells: md_sorted }, g, fam);
            pushf(&mut ops, Op::Compact { cells: vec![set[0]; set.len().min(8)] }, g, fam);
            let mut sorted = set.clone();
            sorted.sort_unstable();
            pushf(&mut ops, Op::Compact { cells: sorted.clone() }, g, fam);
            // the four children of one cell: all, and three of them with one repeated
            if let Ok(kids) = a5::cell_to_children(sorted[0], None) {
                if kids.len() == 4 {
                    pushf(&mut ops, Op::Compact { cells: kids.clone() }, g, fam);
                    pushf(&mut ops, Op::Compact { cells: vec![kids[0], kids[1], kids[2], kids[2]] }, g, fam);
                    pushf(&mut ops, Op::Compact { cells: vec![kids[0], kids[1], kids[2]] }, g, fam);
                    pushf(&mut ops, Op::Compact { cells: vec![kids[3], kids[1], kids[1], kids[0]] }, g, fam);
                }
            }
            pushf(&mut ops, Op::Uncompact { cells: vec![c], res: r + 2 }, g, fam);
            pushf(&mut ops, Op::Uncompact { cells: vec![c], res: r + 1 }, g, fam);
            pushf(&mut ops, Op::Uncompact { cells: minus.iter().copied().take(3).collect(), res: r + 2 }, g, fam);
        }
    }

    let rc = |rng: &mut Rng| -> (F, F, F) {
        let (lon, lat) = random_lonlat(rng);
        let (t, p) = (lon.to_radians(), (90.0 - lat).to_radians());
        (F::of(p.sin() * t.cos()), F::of(p.sin() * t.sin()), F::of(p.cos()))
    };
    cur_type = b'k';
    // (k) ladders: one point at every resolution; one cell and its whole chain of ancestors;
    //     mirror images and 360-degree aliases of one point
    for _ in 0..n(16) {
        fam += 1;
        fam_types.push(cur_type);
        let (lon, lat) = random_lonlat(&mut rng);
        let step = rng.range(1, 3) as usize;
        for r in (-1..=29).step_by(step) {
            pushf(&mut ops, Op::LonLatToCell { lon: F::of(lon), lat: F::of(lat), res: r }, 255, fam);
        }
        let r0 = rng.range(3, 25) as i32;
        for (l2, b2) in [(-lon, lat), (lon, -lat), (lon + 360.0, lat), (lon - 360.0, lat), (lon + 720.0, lat), (lon, lat + 1e-9)] {
            pushf(&mut ops, Op::LonLatToCell { lon: F::of(l2), lat: F::of(b2.clamp(-90.0, 90.0)), res: r0 }, 255, fam);
        }
        if let Ok(c) = a5::lonlat_to_cell(LonLat::new(lon, lat), 29) {
            fam += 1;
        fam_types.push(cur_type);
            let g = (c >> 58) as u8 / 5;
            for r in (-1..=29).rev().step_by(step) {
                pushf(&mut ops, Op::CellToParent { cell: c, res: Some(r) }, g, fam);
                if let Ok(p) = a5::cell_to_parent(c, Some(r)) {
                    if rng.pct(40) {
                        pushf(&mut ops, Op::CellToLonLat { cell: p }, g, fam);
                    }
                    if rng.pct(25) {
                        pushf(&mut ops, Op::GetResolution { cell: p }, g, fam);
                        pushf(&mut ops, Op::CellToChildren { cell: p, res: None }, g, fam);
                    }
                }
            }
        }
    }
    cur_type = b'l';
    // (l) one number in several spellings; metadata of every resolution; one projection call on
    //     every kind of receiver
    {
        fam += 1;
        fam_types.push(cur_type);
        for v in [255u64, 0xdeadbeef, 1 << 63, rng.next_u64()] {
            let h = format!("{:x}", v);
            for s in [h.clone(), h.to_uppercase(), format!("00{}", h), format!("{:0>16}", h), format!("0x{}", h), format!("+{}", h), format!(" {}", h)] {
                let poison = u64::from_str_radix(&s, 16).is_err();
                ops.push(PoolOp { op: Op::HexToU64 { s }, group: 255, poison: if poison { Some("hex_string".into()) } else { None }, cheap: false, family: fam });
            }
            pushf(&mut ops, Op::U64ToHex { v }, 255, fam);
        }
        fam += 1;
        fam_types.push(cur_type);
        for r in -1..=30 {
            pushf(&mut ops, Op::CellArea { res: r }, 255, fam);
            pushf(&mut ops, Op::GetNumCells { res: r }, 255, fam);
            if r >= 0 && r % 3 == 0 {
                pushf(&mut ops, Op::SerialLow { cell: 0, res: r, res2: r + 2 }, 255, fam);
            }
        }
        for _ in 0..n(12) {
            fam += 1;
        fam_types.push(cur_type);
            let origin = rng.below(12) as u8;
            let tri = rng.below(10) as usize;
            let refl = rng.pct(40);
            let (x, y) = slot_face_point(&mut rng, tri, refl);
            for t in [Target::Tl, Target::Fresh, Target::Inst(0), Target::Inst(1), Target::Inst(2)] {
                pushf(&mut ops, Op::Inverse { t, x: F::of(x), y: F::of(y), origin }, origin, fam);
            }
            if let Ok(sp) = fresh.inverse(Face::new(x, y), origin) {
                for t in [Target::Tl, Target::Fresh, Target::Inst(0), Target::Inst(1)] {
                    pushf(&mut ops, Op::Forward { t, theta: F::of(sp.theta().get()), phi: F::of(sp.phi().get()), origin }, origin, fam);
                }
            }
        }
    }
    cur_type = b'm';
    // (m) floats that compare equal but are different bit patterns, and the reverse: +0.0 / -0.0
    //     coordinates (a float-keyed cache using `==` confuses them), NaNs with different payloads
    {
        fam += 1;
        fam_types.push(cur_type);
        let z = [0.0f64, -0.0];
        for lon in z {
            for lat in z {
                for r in [0, 2, 7, 15] {
                    pushf(&mut ops, Op::LonLatToCell { lon: F::of(lon), lat: F::of(lat), res: r }, 255, fam);
                }
                pushf(&mut ops, Op::FromLonLat { lon: F::of(lon), lat: F::of(lat) }, 255, fam);
                pushf(&mut ops, Op::ToLonLat { theta: F::of(lon), phi: F::of(lat) }, 255, fam);
                pushf(&mut ops, Op::FaceToIj { x: F::of(lon), y: F::of(lat) }, 255, fam);
                pushf(&mut ops, Op::CoordXform { x: F::of(lon), y: F::of(lat), z: F::of(1.0) }, 255, fam);
            }
            pushf(&mut ops, Op::Authalic { fwd: true, phi: F::of(lon) }, 255, fam);
            pushf(&mut ops, Op::Authalic { fwd: false, phi: F::of(lon) }, 255, fam);
            pushf(&mut ops, Op::LonLatToCell { lon: F::of(lon), lat: F::of(45.0), res: 9 }, 255, fam);
            pushf(&mut ops, Op::LonLatToCell { lon: F::of(90.0), lat: F::of(lon), res: 9 }, 255, fam);
        }
        fam += 1;
        fam_types.push(cur_type);
        for origin in [0u8, 5, 11] {
            for (x, y) in [(0.0f64, 0.0f64), (-0.0, 0.0), (0.0, -0.0), (-0.0, -0.0), (0.1, 0.0), (0.1, -0.0), (0.0, 0.1), (-0.0, 0.1)] {
                pushf(&mut ops, Op::Inverse { t: Target::Tl, x: F::of(x), y: F::of(y), origin }, origin, fam);
            }
            for (t, p) in [(0.0f64, 0.0f64), (-0.0, 0.0), (0.0, 0.3), (-0.0, 0.3), (PI, 0.3), (-PI, 0.3)] {
                pushf(&mut ops, Op::Forward { t: Target::Tl, theta: F::of(t), phi: F::of(p), origin }, origin, fam);
            }
        }
        fam += 1;
        fam_types.push(cur_type);
        let nans = [f64::NAN, -f64::NAN, f64::from_bits(0x7ff8_0000_0000_0001), f64::from_bits(0x7ff0_0000_0000_0001), f64::INFINITY, f64::NEG_INFINITY];
        for v in nans {
            ops.push(PoolOp { op: Op::LonLatToCell { lon: F::of(v), lat: F::of(10.0), res: 5 }, group: 255, poison: Some("coordinate_out_of_range".into()), cheap: false, family: fam });
            ops.push(PoolOp { op: Op::LonLatToCell { lon: F::of(10.0), lat: F::of(v), res: 5 }, group: 255, poison: Some("coordinate_out_of_range".into()), cheap: false, family: fam });
            ops.push(PoolOp { op: Op::FromLonLat { lon: F::of(v), lat: F::of(0.0) }, group: 255, poison: Some("coordinate_out_of_range".into()), cheap: false, family: fam });
        }
        pushf(&mut ops, Op::LonLatToCell { lon: F::of(10.0), lat: F::of(10.0), res: 5 }, 255, fam);
    }
    // (n) state pumps: tens of thousands of DISTINCT cells through one function, next to ordinary
    //     calls on the first, a middle and the last of those cells (caches with a capacity)
    cur_type = b'n';
    for f in 0..6u8 {
        let &(c, g) = rng.pick(&base_cells);
        let r = a5::get_resolution(c);
        if !(2..=19).contains(&r) {
            continue;
        }
        fam += 1;
        fam_types.push(cur_type);
        let depth = if f == 4 { 6 } else { 8 } + rng.below(2) as u8; // 4^8 = 65 536 or 4^9 (lookups: 4^6..4^7)
        pushf(&mut ops, Op::Pump { f, root: c, depth }, g, fam);
        let d = a5::core::serialization::deserialize(c);
        if let Ok(d) = d {
            let levels = depth as u32;
            for pos in [0u64, 1, 2, (1u64 << (2 * levels)) / 2, (1u64 << (2 * levels)) - 1] {
                let kid = a5::core::utils::A5Cell { origin_id: d.origin_id, segment: d.segment, s: (d.s << (2 * levels)) + pos, resolution: d.resolution + levels as i32 };
                if let Ok(k) = a5::core::serialization::serialize(&kid) {
                    pushf(&mut ops, Op::CellToLonLat { cell: k }, g, fam);
                    pushf(&mut ops, Op::CellToBoundary { cell: k, closed: false, segments: Some(1) }, g, fam);
                    if f >= 2 {
                        pushf(&mut ops, Op::CellToParent { cell: k, res: None }, g, fam);
                        pushf(&mut ops, Op::Deserialize { cell: k }, g, fam);
                    }
                }
            }
        }
    }
    cur_type = b'j';
    // (j) list-valued arguments: the same elements in another order, rotated, reversed, with a
    //     repeated closing element (an order-insensitive key or hash would confuse them)
    for _ in 0..n(16) {
        fam += 1;
        fam_types.push(cur_type);
        let v3: Vec<(F, F, F)> = (0..rng.range(3, 5)).map(|_| rc(&mut rng)).collect();
        let mut rev = v3.clone();
        rev.reverse();
        let mut rot = v3.clone();
        rot.rotate_left(1);
        let mut closed = v3.clone();
        closed.push(v3[0]);
        let mut swapped = v3.clone();
        swapped.swap(1, 2);
        for pts in [v3.clone(), rev, rot, closed, swapped.clone()] {
            pushf(&mut ops, Op::SphPolyArea { pts }, 255, fam);
        }
        let t = F::of(rng.uniform(0.0, 3.0));
        let tri = vec![v3[0], v3[1], v3[2]];
        for pts in [tri.clone(), vec![tri[0], tri[2], tri[1]], vec![tri[1], tri[2], tri[0]], vec![tri[2], tri[1], tri[0]]] {
            pushf(&mut ops, Op::SphTriShape { pts, n: 2, closed: false, t }, 255, fam);
        }
        let c0 = (rng.uniform(-0.5, 0.5), rng.uniform(-0.5, 0.5));
        let verts: Vec<(F, F)> = (0..5)
            .map(|i| {
                let a = (i as f64) * 2.0 * PI / 5.0 + rng.uniform(-0.2, 0.2);
                (F::of(c0.0 + 0.3 * a.cos()), F::of(c0.1 + 0.3 * a.sin()))
            })
            .collect();
        let (px, py, k) = (F::of(c0.0 + 0.05), F::of(c0.1 - 0.05), F::of(1.5));
        let mut vrev = verts.clone();
        vrev.reverse();
        let mut vrot = verts.clone();
        vrot.rotate_left(2);
        for vs in [verts.clone(), vrev, vrot] {
            pushf(&mut ops, Op::PentagonShapeOps { verts: vs.clone(), px, py, k }, 255, fam);
            pushf(&mut ops, Op::NormalizeLongitudes { pts: vs.iter().map(|(x, y)| (F::of(x.v() * 100.0 + 150.0), F::of(y.v() * 100.0))).collect() }, 255, fam);
        }
        let p = (F::of(c0.0), F::of(c0.1));
        pushf(&mut ops, Op::Barycentric { p, tri: vec![verts[0], verts[1], verts[2]] }, 255, fam);
        pushf(&mut ops, Op::Barycentric { p, tri: vec![verts[0], verts[2], verts[1]] }, 255, fam);
        pushf(&mut ops, Op::Barycentric { p, tri: vec![verts[2], verts[0], verts[1]] }, 255, fam);
    }

    cur_type = b'o';
    // (o) value flow BETWEEN families: the library's own geometric constants, bit-exact, as the
    //     arguments of the low-level helper families, next to indexing calls that use the same
    //     triangle (seeded change c13-al: a per-thread memo of triangle areas inside the shared
    //     spherical-triangle helper, keyed by the UNORDERED vertex set; random helper arguments
    //     never coincide with the 62 CRS vertices the projection uses).
    {
        use a5::coordinate_systems::Cartesian;
        let unit = |x: f64, y: f64, z: f64| {
            let l = (x * x + y * y + z * z).sqrt();
            Cartesian::new(x / l, y / l, z / l)
        };
        let centres: Vec<Cartesian> = a5::core::origin::get_origins().iter().map(|o| to_cartesian(o.axis)).collect();
        let dot = |a: &Cartesian, b: &Cartesian| a.x() * b.x() + a.y() * b.y() + a.z() * b.z();
        let mut tris: Vec<(usize, [Cartesian; 3])> = Vec::new();
        if let Ok(mut crs) = a5::projections::crs::CRS::new() {
            for i in 0..centres.len() {
                let nb: Vec<usize> = (0..centres.len()).filter(|&j| j != i && dot(&centres[i], &centres[j]) > 0.3).collect();
                for &j in &nb {
                    for &k in &nb {
                        if k == j || dot(&centres[j], &centres[k]) <= 0.3 {
                            continue;
                        }
                        // face centre, midpoint of the edge towards face j, corner shared with j and k
                        let (ci, cj, ck) = (centres[i], centres[j], centres[k]);
                        let f = crs.get_vertex(ci);
                        let m = crs.get_vertex(unit(ci.x() + cj.x(), ci.y() + cj.y(), ci.z() + cj.z()));
                        let v = crs.get_vertex(unit(ci.x() + cj.x() + ck.x(), ci.y() + cj.y() + ck.y(), ci.z() + cj.z() + ck.z()));
                        if let (Ok(f), Ok(m), Ok(v)) = (f, m, v) {
                            tris.push((i, [f, m, v]));
                        }
                    }
                }
            }
        }
        let c3 = |c: &Cartesian| (F::of(c.x()), F::of(c.y()), F::of(c.z()));
        for _ in 0..n(10) {
            if tris.is_empty() {
                break;
            }
            let (face, t) = rng.pick(&tris).clone();
            fam += 1;
            fam_types.push(cur_type);
            let g = (face / 1) as u8 % 12;
            let (a, b, c) = (c3(&t[0]), c3(&t[1]), c3(&t[2]));
            let tt = F::of(rng.uniform(0.0, 3.0));
            for pts in [vec![a, b, c], vec![a, c, b], vec![b, c, a], vec![c, b, a], vec![b, a, c], vec![c, a, b]] {
                pushf(&mut ops, Op::SphTriShape { pts: pts.clone(), n: 2, closed: false, t: tt }, g, fam);
                if rng.pct(50) {
                    pushf(&mut ops, Op::SphPolyArea { pts }, g, fam);
                }
            }
            pushf(&mut ops, Op::VectorOps { a, b, c, t: F::of(rng.unit()) }, g, fam);
            pushf(&mut ops, Op::VectorOps { a: c, b, c: a, t: F::of(rng.unit()) }, g, fam);
            for v in [a, b, c] {
                pushf(&mut ops, Op::CrsVertex { inst: None, x: v.0, y: v.1, z: v.2 }, g, fam);
                pushf(&mut ops, Op::CoordXform { x: v.0, y: v.1, z: v.2 }, g, fam);
            }
            // indexing calls inside that triangle: points near the centroid and near each vertex
            for w in [(1.0, 1.0, 1.0), (4.0, 1.0, 1.0), (1.0, 4.0, 1.0), (1.0, 1.0, 4.0)] {
                let p = unit(
                    w.0 * t[0].x() + w.1 * t[1].x() + w.2 * t[2].x(),
                    w.0 * t[0].y() + w.1 * t[1].y() + w.2 * t[2].y(),
                    w.0 * t[0].z() + w.1 * t[1].z() + w.2 * t[2].z(),
                );
                let sp = a5::core::coordinate_transforms::to_spherical(p);
                let ll = to_lon_lat(sp);
                let r = rng.range(1, 12) as i32;
                pushf(&mut ops, Op::LonLatToCell { lon: F::of(ll.longitude()), lat: F::of(ll.latitude()), res: r }, g, fam);
                pushf(&mut ops, Op::Forward { t: Target::Tl, theta: F::of(sp.theta().get()), phi: F::of(sp.phi().get()), origin: face as u8 }, g, fam);
                if let Ok(cell) = a5::lonlat_to_cell(LonLat::new(ll.longitude(), ll.latitude()), r) {
                    pushf(&mut ops, Op::CellToLonLat { cell }, g, fam);
                    pushf(&mut ops, Op::CellToBoundary { cell, closed: true, segments: Some(1) }, g, fam);
                }
            }
        }
        // the library's 2-D constants as helper arguments: face / quintant vertices into the
        // barycentric and pentagon-shape helpers, a cell's boundary into normalize_longitudes
        for _ in 0..n(6) {
            fam += 1;
            fam_types.push(cur_type);
            let q = rng.below(5) as usize;
            let qv = a5::core::tiling::get_quintant_vertices(q);
            let verts: Vec<(F, F)> = qv.get_vertices().iter().map(|v| (F::of(v.x()), F::of(v.y()))).collect();
            let fv: Vec<(F, F)> = a5::core::tiling::get_face_vertices().get_vertices().iter().map(|v| (F::of(v.x()), F::of(v.y()))).collect();
            pushf(&mut ops, Op::QuintantVertices { q: q as u32 }, 255, fam);
            pushf(&mut ops, Op::FaceVertices, 255, fam);
            if verts.len() >= 3 {
                let p = (F::of((verts[0].0.v() + verts[1].0.v() + verts[2].0.v()) / 3.0), F::of((verts[0].1.v() + verts[1].1.v() + verts[2].1.v()) / 3.0));
                pushf(&mut ops, Op::Barycentric { p, tri: vec![verts[0], verts[1], verts[2]] }, 255, fam);
                pushf(&mut ops, Op::Barycentric { p, tri: vec![verts[0], verts[2], verts[1]] }, 255, fam);
                pushf(&mut ops, Op::FaceToIj { x: p.0, y: p.1 }, 255, fam);
                pushf(&mut ops, Op::PentagonShapeOps { verts: vec![verts[0], verts[1], verts[2]], px: p.0, py: p.1, k: F::of(1.5) }, 255, fam);
            }
            if fv.len() == 5 {
                let mut rev = fv.clone();
                rev.reverse();
                pushf(&mut ops, Op::PentagonShapeOps { verts: fv.clone(), px: F::of(0.01), py: F::of(-0.02), k: F::of(0.5) }, 255, fam);
                pushf(&mut ops, Op::PentagonShapeOps { verts: rev, px: F::of(0.01), py: F::of(-0.02), k: F::of(0.5) }, 255, fam);
            }
            let &(c, g) = rng.pick(&base_cells);
            if let Ok(bd) = a5::cell_to_boundary(c, None) {
                let pts: Vec<(F, F)> = bd.iter().map(|p| (F::of(p.longitude()), F::of(p.latitude()))).collect();
                if !pts.is_empty() && pts.len() <= 64 {
                    pushf(&mut ops, Op::CellToBoundaryDefault { cell: c }, g, fam);
                    pushf(&mut ops, Op::NormalizeLongitudes { pts: pts.clone() }, g, fam);
                    let cart: Vec<(F, F, F)> = bd
                        .iter()
                        .map(|p| {
                            let c = to_cartesian(a5::core::coordinate_transforms::from_lon_lat(*p));
                            (F::of(c.x()), F::of(c.y()), F::of(c.z()))
                        })
                        .collect();
                    let mut rev = cart.clone();
                    rev.reverse();
                    pushf(&mut ops, Op::SphPolyArea { pts: cart }, g, fam);
                    pushf(&mut ops, Op::SphPolyArea { pts: rev }, g, fam);
                    pushf(&mut ops, Op::FromLonLat { lon: pts[0].0, lat: pts[0].1 }, g, fam);
                    pushf(&mut ops, Op::CellArea { res: a5::get_resolution(c) }, g, fam);
                }
            }
        }
    }

    cur_type = b'p';
    // (p) points in the slivers that no sampled cell claims - lonlat_to_cell's rarely taken
    //     fallback ("none of the candidates contains the point: take the nearest") - found through
    //     the public API alone: the returned cell does not contain the point. Each with close
    //     neighbours of the same kind: such points share their candidate list and may differ in
    //     the winner (seeded change c13-au keyed a memo by the candidate list).
    {
        let mut found = 0;
        let mut tries = 0;
        while found < n(8) && tries < 8_000 {
            tries += 1;
            let r = rng.range(4, 14) as i32;
            // the slivers are polar for the most part
            let lat = if rng.pct(85) { (if rng.pct(50) { 1.0 } else { -1.0 }) * rng.uniform(74.0, 89.9) } else { rng.uniform(-74.0, 74.0) };
            let lon = rng.uniform(-180.0, 180.0);
            let in_gap = |lon: f64, lat: f64| -> Option<u64> {
                let c = a5::lonlat_to_cell(LonLat::new(lon, lat), r).ok()?;
                let d = a5::core::serialization::deserialize(c).ok()?;
                let inside = a5::core::cell::a5cell_contains_point(&d, LonLat::new(lon, lat)).ok()?;
                if inside > 0.0 {
                    None
                } else {
                    Some(c)
                }
            };
            let c0 = match in_gap(lon, lat) {
                Some(c) => c,
                None => continue,
            };
            // neighbours in the same sliver, grouped by the answer they get: a family is worth most
            // when near-identical points get DIFFERENT answers
            let mut by_answer: Vec<(u64, Vec<(f64, f64)>)> = vec![(c0, vec![(lon, lat)])];
            for k in 0..160 {
                let scale = [0.3, 0.1, 0.03, 0.01][k % 4];
                let (lon2, lat2) = (lon + rng.uniform(-scale, scale), (lat + rng.uniform(-scale, scale) * 0.1).clamp(-90.0, 90.0));
                if let Some(c2) = in_gap(lon2, lat2) {
                    match by_answer.iter_mut().find(|e| e.0 == c2) {
                        Some(e) => {
                            if e.1.len() < 4 {
                                e.1.push((lon2, lat2));
                            }
                        }
                        None => {
                            if by_answer.len() < 4 {
                                by_answer.push((c2, vec![(lon2, lat2)]));
                            }
                        }
                    }
                }
            }
            if by_answer.len() < 2 && tries < 5_000 {
                continue;
            }
            found += 1;
            fam += 1;
            fam_types.push(cur_type);
            let g = (c0 >> 58) as u8 / 5;
            for (c, pts) in &by_answer {
                pushf(&mut ops, Op::CellToLonLat { cell: *c }, g, fam);
                for (lo, la) in pts {
                    pushf(&mut ops, Op::LonLatToCell { lon: F::of(*lo), lat: F::of(*la), res: r }, g, fam);
                }
            }
        }
    }

    // ---- poison siblings: for members of each family, the same call with ONE argument made
    //      invalid (error paths taken between near-identical valid calls)
    {
        let snapshot: Vec<(Op, u8, u32)> = ops.iter().filter(|p| p.family > 0 && p.poison.is_none()).map(|p| (p.op.clone(), p.group, p.family)).collect();
        let bad_cell = |rng: &mut Rng, c: u64| -> u64 {
            match rng.below(3) {
                0 => (c & 0x03ff_ffff_ffff_ffff) | ((60 + rng.below(4)) << 58), // face/quintant 60..63
                1 => u64::MAX,
                _ => c | 1, // marker bits garbled
            }
        };
        // list-taking calls get every variant (their error paths run after part of the work is
        // done); the others are sampled
        let mut work: Vec<(Op, u8, u32, u64)> = Vec::new();
        for (op, group, family) in snapshot {
            if matches!(op, Op::Compact { .. } | Op::Uncompact { .. }) {
                for v in 0..4 {
                    work.push((op.clone(), group, family, v));
                }
            } else if rng.pct(12) {
                let v = rng.below(4);
                work.push((op, group, family, v));
            }
        }
        for (op, group, family, variant) in work {
            let (p, why): (Op, &str) = match &op {
                Op::LonLatToCell { lon, lat, res } => match rng.below(3) {
                    0 => (Op::LonLatToCell { lon: *lon, lat: *lat, res: 31 + rng.below(3) as i32 }, "resolution_out_of_range"),
                    1 => (Op::LonLatToCell { lon: F::of(f64::NAN), lat: *lat, res: *res }, "coordinate_out_of_range"),
                    _ => (Op::LonLatToCell { lon: *lon, lat: F::of(f64::INFINITY), res: *res }, "coordinate_out_of_range"),
                },
                Op::CellToLonLat { cell } => (Op::CellToLonLat { cell: bad_cell(&mut rng, *cell) }, "cell_bit_pattern"),
                Op::CellToBoundary { cell, closed, segments } => {
                    if rng.pct(50) {
                        (Op::CellToBoundary { cell: bad_cell(&mut rng, *cell), closed: *closed, segments: Some(1) }, "cell_bit_pattern")
                    } else {
                        (Op::CellToBoundary { cell: *cell, closed: *closed, segments: Some(0).or(*segments) }, "segments_out_of_range")
                    }
                }
                Op::CellToChildren { cell, .. } => match rng.below(3) {
                    0 => (Op::CellToChildren { cell: *cell, res: Some(31) }, "resolution_out_of_range"),
                    1 => (Op::CellToChildren { cell: *cell, res: Some(a5::get_resolution(*cell) - 1) }, "resolution_out_of_range"),
                    _ => (Op::CellToChildren { cell: bad_cell(&mut rng, *cell), res: None }, "cell_bit_pattern"),
                },
                Op::CellToParent { cell, .. } => match rng.below(3) {
                    0 => (Op::CellToParent { cell: *cell, res: Some(a5::get_resolution(*cell) + 1) }, "resolution_out_of_range"),
                    1 => (Op::CellToParent { cell: *cell, res: Some(-2) }, "resolution_out_of_range"),
                    _ => (Op::CellToParent { cell: bad_cell(&mut rng, *cell), res: None }, "cell_bit_pattern"),
                },
                Op::Compact { cells } => {
                    if variant >= 2 {
                        continue;
                    }
                    let mut c2 = cells.clone();
                    let at = if variant == 0 { c2.len() } else { rng.below(c2.len() as u64 + 1) as usize };
                    let seed_cell = cells.first().copied().unwrap_or(0);
                    c2.insert(at, bad_cell(&mut rng, seed_cell));
                    (Op::Compact { cells: c2 }, "cell_bit_pattern")
                }
                Op::Uncompact { cells, res } => match variant {
                    0 => (Op::Uncompact { cells: cells.clone(), res: 31 }, "resolution_out_of_range"),
                    1 => {
                        // a fine cell with a target beyond the maximum: passes the sizing pass
                        // first descendant at resolution 29, built arithmetically (never by expansion)
                        let fine: Vec<u64> = cells
                            .iter()
                            .filter_map(|c| {
                                let d = a5::core::serialization::deserialize(*c).ok()?;
                                if d.resolution < 2 || d.resolution > 29 {
                                    return None;
                                }
                                let twin = a5::core::utils::A5Cell { origin_id: d.origin_id, segment: d.segment, s: d.s << (2 * (29 - d.resolution)), resolution: 29 };
                                a5::core::serialization::serialize(&twin).ok()
                            })
                            .take(2)
                            .collect();
                        if fine.is_empty() {
                            continue;
                        }
                        (Op::Uncompact { cells: fine, res: 31 }, "resolution_out_of_range")
                    }
                    2 => {
                        let mut c2 = cells.clone();
                        let seed_cell = cells.first().copied().unwrap_or(0);
                        c2.push(bad_cell(&mut rng, seed_cell));
                        (Op::Uncompact { cells: c2, res: *res }, "cell_bit_pattern")
                    }
                    _ => (Op::Uncompact { cells: cells.clone(), res: *res - 3 }, "resolution_out_of_range"),
                },
                Op::Inverse { t, x, y, .. } => (Op::Inverse { t: *t, x: *x, y: *y, origin: 12 + rng.below(20) as u8 }, "origin_out_of_range"),
                Op::Forward { t, theta, phi, .. } => (Op::Forward { t: *t, theta: *theta, phi: *phi, origin: 12 + rng.below(20) as u8 }, "origin_out_of_range"),
                Op::GetPentagon { origin, segment, s, res } => (Op::GetPentagon { origin: *origin, segment: *segment + 5, s: *s, res: *res }, "segment_out_of_range"),
                _ => continue,
            };
            ops.push(PoolOp { op: p, group, poison: Some(why.to_string()), cheap: false, family });
        }
    }

    // ---- low-level public functions
    push(&mut ops, Op::Quaternions, 255);
    for _ in 0..n(16) {
        let c0 = (rng.uniform(-0.5, 0.5), rng.uniform(-0.5, 0.5));
        let nv = if rng.pct(70) { 5 } else { 3 };
        let r0 = rng.uniform(0.05, 0.4);
        let verts: Vec<(F, F)> = (0..nv)
            .map(|i| {
                let a = (i as f64) * 2.0 * PI / nv as f64 + rng.uniform(-0.2, 0.2);
                (F::of(c0.0 + r0 * a.cos()), F::of(c0.1 + r0 * a.sin()))
            })
            .collect();
        push(&mut ops, Op::PentagonShapeOps { verts: verts.clone(), px: F::of(c0.0 + rng.uniform(-0.3, 0.3)), py: F::of(c0.1 + rng.uniform(-0.3, 0.3)), k: F::of(rng.uniform(0.1, 4.0)) }, 255);
        push(&mut ops, Op::VectorOps { a: rc(&mut rng), b: rc(&mut rng), c: rc(&mut rng), t: F::of(rng.unit()) }, 255);
        push(&mut ops, Op::SphTriShape { pts: vec![rc(&mut rng), rc(&mut rng), rc(&mut rng)], n: rng.range(1, 6) as u32, closed: rng.pct(50), t: F::of(rng.uniform(0.0, 3.0)) }, 255);
        push(&mut ops, Op::CoordXform { x: F::of(rng.uniform(-2.0, 2.0)), y: F::of(rng.uniform(-2.0, 2.0)), z: F::of(rng.uniform(-2.0, 2.0)) }, 255);
        push(&mut ops, Op::Barycentric { p: (F::of(rng.uniform(-1.0, 1.0)), F::of(rng.uniform(-1.0, 1.0))), tri: verts.iter().take(3).copied().collect() }, 255);
        push(&mut ops, Op::Gnomonic { a: F::of(rng.uniform(-3.0, 3.0)), b: F::of(rng.uniform(0.0, 1.4)) }, 255);
        let res = rng.range(1, 12) as u32;
        push(
            &mut ops,
            Op::HilbertLow { n: rng.below(4) as u8, f0: rng.pct(50), f1: rng.pct(50), x: F::of(rng.uniform(0.0, 8.0)), y: F::of(rng.uniform(0.0, 8.0)), s: rng.next_u64() & ((1u64 << (2 * res)) - 1), res, invert_j: rng.pct(50), flip_ij: rng.pct(50) },
            255,
        );
        let &(c, g) = rng.pick(&base_cells);
        push(&mut ops, Op::SerialLow { cell: c, res: a5::get_resolution(c), res2: a5::get_resolution(c) + rng.range(0, 5) as i32 }, g);
        let (lon, lat) = random_lonlat(&mut rng);
        push(&mut ops, Op::OriginLow { theta: F::of((lon + 93.0).to_radians()), phi: F::of((90.0 - lat).to_radians()), origin: rng.below(12) as u8 }, 255);
    }
    push_poison(&mut ops, Op::SphTriShape { pts: vec![rc(&mut rng), rc(&mut rng)], n: 2, closed: true, t: F::of(0.5) }, 255, "vertex_count");
    push_poison(&mut ops, Op::VectorOps { a: (F::of(0.0), F::of(0.0), F::of(0.0)), b: (F::of(f64::NAN), F::of(0.0), F::of(1.0)), c: rc(&mut rng), t: F::of(2.0) }, 255, "coordinate_out_of_range");

    // mark the obviously cheap ones for long-haul repetition
    for p in ops.iter_mut() {
        if matches!(
            p.op,
            Op::GetResolution { .. } | Op::CellArea { .. } | Op::GetNumCells { .. } | Op::U64ToHex { .. } | Op::Deserialize { .. } | Op::Forward { .. } | Op::Inverse { .. } | Op::CellToParent { .. } | Op::CellToLonLat { .. }
        ) {
            p.cheap = true;
        }
    }
    // de-duplicate by key, keep first occurrence, stable order
    let mut seen = std::collections::BTreeSet::new();
    ops.retain(|p| seen.insert(p.op.key()));
    Pool { seed, ops, family_types: fam_types }
}
