/* Clock seam for the simulator: an LD_PRELOAD shim that adds a simulator-controlled offset to the
 * clocks a program normally reads (CLOCK_MONOTONIC, CLOCK_REALTIME and their coarse / boottime
 * variants). a5-rs reads no clock today; a change that introduces one (a cache with a time to
 * live, a time budget, a time-seeded choice) then sees the simulated jumps the scenario injects
 * ("clock_jump" fault kind). CLOCK_MONOTONIC_RAW and the CPU-time clocks pass through untouched:
 * the simulator's own watchdog reads CLOCK_MONOTONIC_RAW. */
#define _GNU_SOURCE
#include <dlfcn.h>
#include <pthread.h>
#include <stdlib.h>
#include <stdarg.h>
#include <fcntl.h>
#include <string.h>
#include <unistd.h>
#include <errno.h>
#include <stdint.h>
#include <time.h>
#include <sys/time.h>
#include <sys/syscall.h>

static volatile int64_t offset_ns = 0;
static int (*real_clock_gettime)(clockid_t, struct timespec *) = 0;

/* (the offset saturates at 150 years, far from the end of int64 nanoseconds) */
#define A5SIM_MAX_OFFSET_NS (150LL * 365 * 86400 * 1000000000LL)
void a5sim_clock_advance(int64_t ns) {
    int64_t cur = __atomic_load_n(&offset_ns, __ATOMIC_SEQ_CST);
    if (ns <= 0 || cur >= A5SIM_MAX_OFFSET_NS - ns) return;
    __atomic_fetch_add(&offset_ns, ns, __ATOMIC_SEQ_CST);
}
int64_t a5sim_clock_offset(void) { return __atomic_load_n(&offset_ns, __ATOMIC_SEQ_CST); }

static void shift(struct timespec *ts) {
    int64_t off = __atomic_load_n(&offset_ns, __ATOMIC_SEQ_CST);
    int64_t ns = (int64_t)ts->tv_nsec + off % 1000000000LL;
    ts->tv_sec += off / 1000000000LL;
    if (ns >= 1000000000LL) { ns -= 1000000000LL; ts->tv_sec += 1; }
    if (ns < 0) { ns += 1000000000LL; ts->tv_sec -= 1; }
    ts->tv_nsec = ns;
}

int clock_gettime(clockid_t id, struct timespec *ts) {
    if (!real_clock_gettime) real_clock_gettime = (int (*)(clockid_t, struct timespec *))dlsym(RTLD_NEXT, "clock_gettime");
    int r = real_clock_gettime(id, ts);
    if (r == 0 && (id == CLOCK_MONOTONIC || id == CLOCK_REALTIME || id == CLOCK_MONOTONIC_COARSE || id == CLOCK_REALTIME_COARSE || id == CLOCK_BOOTTIME)) shift(ts);
    return r;
}

int gettimeofday(struct timeval *tv, void *tz) {
    struct timespec ts;
    (void)tz;
    if (clock_gettime(CLOCK_REALTIME, &ts) != 0) return -1;
    if (tv) { tv->tv_sec = ts.tv_sec; tv->tv_usec = ts.tv_nsec / 1000; }
    return 0;
}

time_t time(time_t *out) {
    struct timespec ts;
    clock_gettime(CLOCK_REALTIME, &ts);
    if (out) *out = ts.tv_sec;
    return ts.tv_sec;
}


/* ------------------------------------------------------------------------------------------
 * Thread-creation seam. Threads that the LIBRARY starts inside a call (helper threads, a lazily
 * started background worker) are a source of nondeterminism the simulator must own: the shim
 * interposes pthread_create, asks the simulator (on_create, in the creating thread) whether the
 * new thread belongs to a simulated run, and if so wraps its start routine: child_start runs in
 * the new thread before any user code (it registers the thread and blocks until the scheduler
 * hands it the baton), child_exit after the user code returned. The simulator's own threads are
 * created with the callbacks switched off by the creating thread (on_create returns -1). */
typedef int64_t (*a5sim_on_create_t)(void);
typedef void (*a5sim_child_t)(int64_t);
static a5sim_on_create_t cb_on_create = 0;
static a5sim_child_t cb_child_start = 0;
static a5sim_child_t cb_child_exit = 0;
static int (*real_pthread_create)(pthread_t *, const pthread_attr_t *, void *(*)(void *), void *) = 0;

void a5sim_set_thread_callbacks(a5sim_on_create_t on_create, a5sim_child_t child_start, a5sim_child_t child_exit) {
    cb_child_start = child_start;
    cb_child_exit = child_exit;
    __atomic_store_n(&cb_on_create, on_create, __ATOMIC_SEQ_CST);
}

struct a5sim_wrap {
    void *(*start)(void *);
    void *arg;
    int64_t token;
};

static void *a5sim_trampoline(void *p) {
    struct a5sim_wrap w = *(struct a5sim_wrap *)p;
    free(p);
    if (cb_child_start) cb_child_start(w.token);
    void *r = w.start(w.arg);
    if (cb_child_exit) cb_child_exit(w.token);
    return r;
}

int pthread_create(pthread_t *thread, const pthread_attr_t *attr, void *(*start)(void *), void *arg) {
    if (!real_pthread_create)
        real_pthread_create = (int (*)(pthread_t *, const pthread_attr_t *, void *(*)(void *), void *))dlsym(RTLD_NEXT, "pthread_create");
    a5sim_on_create_t oc = __atomic_load_n(&cb_on_create, __ATOMIC_SEQ_CST);
    if (oc) {
        int64_t token = oc();
        if (token >= 0) {
            struct a5sim_wrap *w = (struct a5sim_wrap *)malloc(sizeof *w);
            if (w) {
                w->start = start;
                w->arg = arg;
                w->token = token;
                int r = real_pthread_create(thread, attr, a5sim_trampoline, w);
                if (r != 0) {
                    free(w);
                    if (cb_child_exit) cb_child_exit(-token - 2); /* creation failed: retire the registration */
                }
                return r;
            }
        }
    }
    return real_pthread_create(thread, attr, start, arg);
}


/* ------------------------------------------------------------------------------------------
 * File-system seam. a5-rs touches no file today; a change that starts to persist something (an
 * on-disk cache) does. Observation: every open that can create or modify a file is appended to
 * the log named by A5SIM_FS_LOG, so that the cold-world engine knows which files a process left
 * behind and can damage them (torn / lost / corrupted write) before the next process starts.
 * Faults: descriptors of files opened for writing UNDER THE DIRECTORY NAMED BY A5SIM_FS_ROOT (the
 * private temp directory the simulator gave the process; the simulator itself writes nothing
 * there) are tracked until they are closed, and write / fsync / rename on them can be made to
 * fail, seeded. Nothing else is ever touched. */
static int (*real_open)(const char *, int, ...) = 0;
static int (*real_open64)(const char *, int, ...) = 0;
static int (*real_openat)(int, const char *, int, ...) = 0;
static int (*real_close)(int) = 0;

#define A5SIM_MAX_TRACKED 64
static volatile int tracked_fds[A5SIM_MAX_TRACKED];

static void a5sim_track_fd(int fd) {
    if (fd < 0) return;
    for (int i = 0; i < A5SIM_MAX_TRACKED; i++) {
        int expect = 0;
        if (__atomic_compare_exchange_n(&tracked_fds[i], &expect, fd + 1, 0, __ATOMIC_SEQ_CST, __ATOMIC_SEQ_CST)) return;
    }
}

static void a5sim_untrack_fd(int fd) {
    for (int i = 0; i < A5SIM_MAX_TRACKED; i++) {
        int expect = fd + 1;
        __atomic_compare_exchange_n(&tracked_fds[i], &expect, 0, 0, __ATOMIC_SEQ_CST, __ATOMIC_SEQ_CST);
    }
}

static int a5sim_is_tracked(int fd) {
    for (int i = 0; i < A5SIM_MAX_TRACKED; i++)
        if (tracked_fds[i] == fd + 1) return 1;
    return 0;
}

static int a5sim_has_prefix(const char *path, const char *root, size_t n) {
    return n > 0 && strncmp(path, root, n) == 0 && (path[n] == '/' || path[n] == 0);
}

static int a5sim_under_root(const char *path) {
    const char *root = getenv("A5SIM_FS_ROOT");
    if (!path || !root || !*root) return 0;
    if (a5sim_has_prefix(path, root, strlen(root))) return 1;
    /* shared locations that the simulator has made private to the process (bind mounts) */
    const char *also = getenv("A5SIM_FS_ALSO");
    while (also && *also) {
        const char *e = strchr(also, ':');
        size_t n = e ? (size_t)(e - also) : strlen(also);
        if (a5sim_has_prefix(path, also, n)) return 1;
        also = e ? e + 1 : 0;
    }
    return 0;
}

/* returns 1 if the open can create or modify a file under the fault root (=> track the fd) */
static int a5sim_log_path(const char *path, int flags) {
    if (!path || !(flags & (O_WRONLY | O_RDWR | O_CREAT | O_TRUNC | O_APPEND))) return 0;
    const char *log = getenv("A5SIM_FS_LOG");
    if (log && *log && strcmp(path, log) != 0) {
        if (!real_open) real_open = (int (*)(const char *, int, ...))dlsym(RTLD_NEXT, "open");
        if (!real_close) real_close = (int (*)(int))dlsym(RTLD_NEXT, "close");
        int fd = real_open(log, O_WRONLY | O_CREAT | O_APPEND, 0644);
        if (fd >= 0) {
            size_t n = strlen(path);
            if (n < 4000) {
                char buf[4096];
                memcpy(buf, path, n);
                buf[n] = '\n';
                ssize_t w = syscall(SYS_write, fd, buf, n + 1);
                (void)w;
            }
            real_close(fd);
        }
    }
    return a5sim_under_root(path);
}

int open(const char *path, int flags, ...) {
    mode_t mode = 0;
    if ((flags & O_CREAT) || (flags & O_TMPFILE) == O_TMPFILE) { va_list ap; va_start(ap, flags); mode = (mode_t)va_arg(ap, int); va_end(ap); }
    if (!real_open) real_open = (int (*)(const char *, int, ...))dlsym(RTLD_NEXT, "open");
    int track = a5sim_log_path(path, flags);
    int fd = real_open(path, flags, mode);
    if (track) a5sim_track_fd(fd);
    return fd;
}

int open64(const char *path, int flags, ...) {
    mode_t mode = 0;
    if ((flags & O_CREAT) || (flags & O_TMPFILE) == O_TMPFILE) { va_list ap; va_start(ap, flags); mode = (mode_t)va_arg(ap, int); va_end(ap); }
    if (!real_open64) real_open64 = (int (*)(const char *, int, ...))dlsym(RTLD_NEXT, "open64");
    int track = a5sim_log_path(path, flags);
    int fd = real_open64(path, flags, mode);
    if (track) a5sim_track_fd(fd);
    return fd;
}

int openat(int dirfd, const char *path, int flags, ...) {
    mode_t mode = 0;
    if ((flags & O_CREAT) || (flags & O_TMPFILE) == O_TMPFILE) { va_list ap; va_start(ap, flags); mode = (mode_t)va_arg(ap, int); va_end(ap); }
    if (!real_openat) real_openat = (int (*)(int, const char *, int, ...))dlsym(RTLD_NEXT, "openat");
    int track = (path && path[0] == '/') ? a5sim_log_path(path, flags) : 0;
    int fd = real_openat(dirfd, path, flags, mode);
    if (track) a5sim_track_fd(fd);
    return fd;
}

int close(int fd) {
    if (!real_close) real_close = (int (*)(int))dlsym(RTLD_NEXT, "close");
    a5sim_untrack_fd(fd);
    return real_close(fd);
}


/* Write-path faults on the files the library itself opened for writing under the fault root:
 * some write(2) calls are cut short or fail with ENOSPC (disk full) or EIO, some fsync /
 * fdatasync calls fail with EIO, some rename(2) calls into or out of the root fail with ENOSPC
 * (and do nothing). The seed comes from a5sim_fs_fault_set() (the history simulator sets it per
 * scenario, which also restarts the call counter, so that a scenario replays in a fresh process)
 * or from A5SIM_FS_FAULT in the environment (cold-world chains). Seed 0 = no faults. */
static ssize_t (*real_write)(int, const void *, size_t) = 0;
static int (*real_fsync)(int) = 0;
static int (*real_fdatasync)(int) = 0;
static int (*real_rename)(const char *, const char *) = 0;
static volatile uint64_t fault_calls = 0;
static volatile uint64_t fault_seed = 0;
static volatile int fault_seed_set = 0;
static volatile uint64_t faults_fired = 0;

void a5sim_fs_fault_set(uint64_t seed) {
    __atomic_store_n(&fault_seed, seed, __ATOMIC_SEQ_CST);
    __atomic_store_n(&fault_seed_set, 1, __ATOMIC_SEQ_CST);
    __atomic_store_n(&fault_calls, 0, __ATOMIC_SEQ_CST);
}
uint64_t a5sim_fs_faults_fired(void) { return __atomic_load_n(&faults_fired, __ATOMIC_SEQ_CST); }

/* 0 = no fault; otherwise a pseudo-random word for this call */
static uint64_t a5sim_fault_word(void) {
    uint64_t seed;
    if (__atomic_load_n(&fault_seed_set, __ATOMIC_SEQ_CST)) seed = __atomic_load_n(&fault_seed, __ATOMIC_SEQ_CST);
    else { const char *f = getenv("A5SIM_FS_FAULT"); seed = (f && *f) ? (uint64_t)strtoull(f, 0, 10) : 0; }
    if (!seed) return 0;
    uint64_t k = __atomic_fetch_add(&fault_calls, 1, __ATOMIC_SEQ_CST);
    uint64_t z = seed + 0x9e3779b97f4a7c15ULL * (k + 1);
    z = (z ^ (z >> 30)) * 0xbf58476d1ce4e5b9ULL;
    z = (z ^ (z >> 27)) * 0x94d049bb133111ebULL;
    z ^= z >> 31;
    return z | (1ULL << 63);
}

ssize_t write(int fd, const void *buf, size_t n) {
    if (!real_write) real_write = (ssize_t (*)(int, const void *, size_t))dlsym(RTLD_NEXT, "write");
    uint64_t z = a5sim_is_tracked(fd) ? a5sim_fault_word() : 0;
    if (z) {
        unsigned r = (unsigned)(z % 100);
        if (r < 15 && n > 1) { __atomic_fetch_add(&faults_fired, 1, __ATOMIC_SEQ_CST); return real_write(fd, buf, 1 + (size_t)((z >> 8) % (n - 1))); } /* short write */
        if (r < 22) { __atomic_fetch_add(&faults_fired, 1, __ATOMIC_SEQ_CST); errno = ENOSPC; return -1; }
        if (r < 27) { __atomic_fetch_add(&faults_fired, 1, __ATOMIC_SEQ_CST); errno = EIO; return -1; }
    }
    return real_write(fd, buf, n);
}

int fsync(int fd) {
    if (!real_fsync) real_fsync = (int (*)(int))dlsym(RTLD_NEXT, "fsync");
    uint64_t z = a5sim_is_tracked(fd) ? a5sim_fault_word() : 0;
    if (z && z % 100 < 20) { __atomic_fetch_add(&faults_fired, 1, __ATOMIC_SEQ_CST); errno = EIO; return -1; }
    return real_fsync(fd);
}

int fdatasync(int fd) {
    if (!real_fdatasync) real_fdatasync = (int (*)(int))dlsym(RTLD_NEXT, "fdatasync");
    uint64_t z = a5sim_is_tracked(fd) ? a5sim_fault_word() : 0;
    if (z && z % 100 < 20) { __atomic_fetch_add(&faults_fired, 1, __ATOMIC_SEQ_CST); errno = EIO; return -1; }
    return real_fdatasync(fd);
}

int rename(const char *from, const char *to) {
    if (!real_rename) real_rename = (int (*)(const char *, const char *))dlsym(RTLD_NEXT, "rename");
    uint64_t z = (a5sim_under_root(from) || a5sim_under_root(to)) ? a5sim_fault_word() : 0;
    if (z && z % 100 < 15) { __atomic_fetch_add(&faults_fired, 1, __ATOMIC_SEQ_CST); errno = ENOSPC; return -1; }
    return real_rename(from, to);
}
