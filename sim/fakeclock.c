/* Clock seam for the simulator: an LD_PRELOAD shim that adds a simulator-controlled offset to the
 * clocks a program normally reads (CLOCK_MONOTONIC, CLOCK_REALTIME and their coarse / boottime
 * variants). a5-rs reads no clock today; a change that introduces one (a cache with a time to
 * live, a time budget, a time-seeded choice) then sees the simulated jumps the scenario injects
 * ("clock_jump" fault kind). CLOCK_MONOTONIC_RAW and the CPU-time clocks pass through untouched:
 * the simulator's own watchdog reads CLOCK_MONOTONIC_RAW. */
#define _GNU_SOURCE
#include <dlfcn.h>
#include <pthread.h>
#include <stdlib.h>
#include <stdarg.h>
#include <fcntl.h>
#include <string.h>
#include <unistd.h>
#include <stdint.h>
#include <time.h>
#include <sys/time.h>

static volatile int64_t offset_ns = 0;
static int (*real_clock_gettime)(clockid_t, struct timespec *) = 0;

void a5sim_clock_advance(int64_t ns) { __atomic_fetch_add(&offset_ns, ns, __ATOMIC_SEQ_CST); }
int64_t a5sim_clock_offset(void) { return __atomic_load_n(&offset_ns, __ATOMIC_SEQ_CST); }

static void shift(struct timespec *ts) {
    int64_t off = __atomic_load_n(&offset_ns, __ATOMIC_SEQ_CST);
    int64_t ns = (int64_t)ts->tv_nsec + off % 1000000000LL;
    ts->tv_sec += off / 1000000000LL;
    if (ns >= 1000000000LL) { ns -= 1000000000LL; ts->tv_sec += 1; }
    if (ns < 0) { ns += 1000000000LL; ts->tv_sec -= 1; }
    ts->tv_nsec = ns;
}

int clock_gettime(clockid_t id, struct timespec *ts) {
    if (!real_clock_gettime) real_clock_gettime = (int (*)(clockid_t, struct timespec *))dlsym(RTLD_NEXT, "clock_gettime");
    int r = real_clock_gettime(id, ts);
    if (r == 0 && (id == CLOCK_MONOTONIC || id == CLOCK_REALTIME || id == CLOCK_MONOTONIC_COARSE || id == CLOCK_REALTIME_COARSE || id == CLOCK_BOOTTIME)) shift(ts);
    return r;
}

int gettimeofday(struct timeval *tv, void *tz) {
    struct timespec ts;
    (void)tz;
    if (clock_gettime(CLOCK_REALTIME, &ts) != 0) return -1;
    if (tv) { tv->tv_sec = ts.tv_sec; tv->tv_usec = ts.tv_nsec / 1000; }
    return 0;
}

time_t time(time_t *out) {
    struct timespec ts;
    clock_gettime(CLOCK_REALTIME, &ts);
    if (out) *out = ts.tv_sec;
    return ts.tv_sec;
}


/* ------------------------------------------------------------------------------------------
 * Thread-creation seam. Threads that the LIBRARY starts inside a call (helper threads, a lazily
 * started background worker) are a source of nondeterminism the simulator must own: the shim
 * interposes pthread_create, asks the simulator (on_create, in the creating thread) whether the
 * new thread belongs to a simulated run, and if so wraps its start routine: child_start runs in
 * the new thread before any user code (it registers the thread and blocks until the scheduler
 * hands it the baton), child_exit after the user code returned. The simulator's own threads are
 * created with the callbacks switched off by the creating thread (on_create returns -1). */
typedef int64_t (*a5sim_on_create_t)(void);
typedef void (*a5sim_child_t)(int64_t);
static a5sim_on_create_t cb_on_create = 0;
static a5sim_child_t cb_child_start = 0;
static a5sim_child_t cb_child_exit = 0;
static int (*real_pthread_create)(pthread_t *, const pthread_attr_t *, void *(*)(void *), void *) = 0;

void a5sim_set_thread_callbacks(a5sim_on_create_t on_create, a5sim_child_t child_start, a5sim_child_t child_exit) {
    cb_child_start = child_start;
    cb_child_exit = child_exit;
    __atomic_store_n(&cb_on_create, on_create, __ATOMIC_SEQ_CST);
}

struct a5sim_wrap {
    void *(*start)(void *);
    void *arg;
    int64_t token;
};

static void *a5sim_trampoline(void *p) {
    struct a5sim_wrap w = *(struct a5sim_wrap *)p;
    free(p);
    if (cb_child_start) cb_child_start(w.token);
    void *r = w.start(w.arg);
    if (cb_child_exit) cb_child_exit(w.token);
    return r;
}

int pthread_create(pthread_t *thread, const pthread_attr_t *attr, void *(*start)(void *), void *arg) {
    if (!real_pthread_create)
        real_pthread_create = (int (*)(pthread_t *, const pthread_attr_t *, void *(*)(void *), void *))dlsym(RTLD_NEXT, "pthread_create");
    a5sim_on_create_t oc = __atomic_load_n(&cb_on_create, __ATOMIC_SEQ_CST);
    if (oc) {
        int64_t token = oc();
        if (token >= 0) {
            struct a5sim_wrap *w = (struct a5sim_wrap *)malloc(sizeof *w);
            if (w) {
                w->start = start;
                w->arg = arg;
                w->token = token;
                int r = real_pthread_create(thread, attr, a5sim_trampoline, w);
                if (r != 0) {
                    free(w);
                    if (cb_child_exit) cb_child_exit(-token - 2); /* creation failed: retire the registration */
                }
                return r;
            }
        }
    }
    return real_pthread_create(thread, attr, start, arg);
}


/* ------------------------------------------------------------------------------------------
 * File-system seam (observation only). a5-rs touches no file today; a change that starts to
 * persist something (an on-disk cache) does. Every open that can create or modify a file is
 * appended to the log named by A5SIM_FS_LOG, so that the cold-world engine knows which files a
 * process left behind and can damage them (torn / lost / corrupted write) before the next
 * process starts. The call itself is passed through untouched. */
static int (*real_open)(const char *, int, ...) = 0;
static int (*real_open64)(const char *, int, ...) = 0;
static int (*real_openat)(int, const char *, int, ...) = 0;

static void a5sim_log_path(const char *path, int flags) {
    if (!path || !(flags & (O_WRONLY | O_RDWR | O_CREAT | O_TRUNC | O_APPEND))) return;
    const char *log = getenv("A5SIM_FS_LOG");
    if (!log || !*log || strcmp(path, log) == 0) return;
    if (!real_open) real_open = (int (*)(const char *, int, ...))dlsym(RTLD_NEXT, "open");
    int fd = real_open(log, O_WRONLY | O_CREAT | O_APPEND, 0644);
    if (fd < 0) return;
    size_t n = strlen(path);
    if (n < 4000) {
        char buf[4096];
        memcpy(buf, path, n);
        buf[n] = '\n';
        ssize_t w = write(fd, buf, n + 1);
        (void)w;
    }
    close(fd);
}

int open(const char *path, int flags, ...) {
    mode_t mode = 0;
    if (flags & O_CREAT) { va_list ap; va_start(ap, flags); mode = (mode_t)va_arg(ap, int); va_end(ap); }
    if (!real_open) real_open = (int (*)(const char *, int, ...))dlsym(RTLD_NEXT, "open");
    a5sim_log_path(path, flags);
    return real_open(path, flags, mode);
}

int open64(const char *path, int flags, ...) {
    mode_t mode = 0;
    if (flags & O_CREAT) { va_list ap; va_start(ap, flags); mode = (mode_t)va_arg(ap, int); va_end(ap); }
    if (!real_open64) real_open64 = (int (*)(const char *, int, ...))dlsym(RTLD_NEXT, "open64");
    a5sim_log_path(path, flags);
    return real_open64(path, flags, mode);
}

int openat(int dirfd, const char *path, int flags, ...) {
    mode_t mode = 0;
    if (flags & O_CREAT) { va_list ap; va_start(ap, flags); mode = (mode_t)va_arg(ap, int); va_end(ap); }
    if (!real_openat) real_openat = (int (*)(int, const char *, int, ...))dlsym(RTLD_NEXT, "openat");
    if (path && path[0] == '/') a5sim_log_path(path, flags);
    return real_openat(dirfd, path, flags, mode);
}
