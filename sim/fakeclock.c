/* Clock seam for the simulator: an LD_PRELOAD shim that adds a simulator-controlled offset to the
 * clocks a program normally reads (CLOCK_MONOTONIC, CLOCK_REALTIME and their coarse / boottime
 * variants). a5-rs reads no clock today; a change that introduces one (a cache with a time to
 * live, a time budget, a time-seeded choice) then sees the simulated jumps the scenario injects
 * ("clock_jump" fault kind). CLOCK_MONOTONIC_RAW and the CPU-time clocks pass through untouched:
 * the simulator's own watchdog reads CLOCK_MONOTONIC_RAW. */
#define _GNU_SOURCE
#include <dlfcn.h>
#include <stdint.h>
#include <time.h>
#include <sys/time.h>

static volatile int64_t offset_ns = 0;
static int (*real_clock_gettime)(clockid_t, struct timespec *) = 0;

void a5sim_clock_advance(int64_t ns) { __atomic_fetch_add(&offset_ns, ns, __ATOMIC_SEQ_CST); }
int64_t a5sim_clock_offset(void) { return __atomic_load_n(&offset_ns, __ATOMIC_SEQ_CST); }

static void shift(struct timespec *ts) {
    int64_t off = __atomic_load_n(&offset_ns, __ATOMIC_SEQ_CST);
    int64_t ns = (int64_t)ts->tv_nsec + off % 1000000000LL;
    ts->tv_sec += off / 1000000000LL;
    if (ns >= 1000000000LL) { ns -= 1000000000LL; ts->tv_sec += 1; }
    if (ns < 0) { ns += 1000000000LL; ts->tv_sec -= 1; }
    ts->tv_nsec = ns;
}

int clock_gettime(clockid_t id, struct timespec *ts) {
    if (!real_clock_gettime) real_clock_gettime = (int (*)(clockid_t, struct timespec *))dlsym(RTLD_NEXT, "clock_gettime");
    int r = real_clock_gettime(id, ts);
    if (r == 0 && (id == CLOCK_MONOTONIC || id == CLOCK_REALTIME || id == CLOCK_MONOTONIC_COARSE || id == CLOCK_REALTIME_COARSE || id == CLOCK_BOOTTIME)) shift(ts);
    return r;
}

int gettimeofday(struct timeval *tv, void *tz) {
    struct timespec ts;
    (void)tz;
    if (clock_gettime(CLOCK_REALTIME, &ts) != 0) return -1;
    if (tv) { tv->tv_sec = ts.tv_sec; tv->tv_usec = ts.tv_nsec / 1000; }
    return 0;
}

time_t time(time_t *out) {
    struct timespec ts;
    clock_gettime(CLOCK_REALTIME, &ts);
    if (out) *out = ts.tv_sec;
    return ts.tv_sec;
}
