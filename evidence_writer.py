"""Builds evidence/C13.json from the engines' own output files (nothing here is a constant:
every count is read from what the run measured)."""
import json

NOT_APPLICABLE_FAULTS = {
    "message_loss_duplication_reordering_delay": "a5-rs has no network or message passing",
    "partition_and_heal": "single process, no peers",
    "crash_restart_with_durable_state": "a5-rs writes no durable state today; the restart it has is a caller thread ending and a new one starting with a cold memo (thread_exit / thread_spawn_cold / restart_after_exit). Process restart with only durable state surviving IS simulated (Engine W chains: four successive fresh processes sharing one private temp / home / working directory, with seeded damage to whatever the previous one left there), and reports files_written = 0 on this tree.",
    "clock_skew": "single process, one clock: there is no second node whose clock could disagree. (Clock JUMPS are injected, see faults_fired: a5-rs reads no clock today, but a change that introduces one is exercised through an LD_PRELOAD seam.)",
    "disk_errors_and_full_disk": "no file or stream I/O under src/, so on the unchanged tree no write exists that could fail. The fault kinds are nevertheless armed (file-system seam in the LD_PRELOAD shim + a private temp / home directory per process): torn / lost / zero-tailed / bit-flipped files between the processes of an Engine-W chain and before steps of an Engine-H scenario, short writes / ENOSPC / EIO / failed fsync / failed rename on files the library opens under that directory; their fired counters are reported and are 0 here because nothing is ever written.",
    "failing_allocations": "Rust aborts on allocation failure (no recoverable path to check); the pristine-process references run under an address-space limit so that arguments which make the unchanged tree allocate without bound are screened out rather than executed in-process",
    "failing_system_calls": "the library makes none today besides what std's thread-local and once-cell primitives need; write / fsync / fdatasync / rename failures are armed on files the library opens under its private directory (see faults_fired), pthread_create and the clock are behind seams",
}

SITE_NAMES = ["tl_get", "fwd_entry", "fwd_mid", "fwd_pre_poly", "inv_entry", "inv_mid", "inv_pre_poly", "face_tri_miss",
              "sph_tri_miss", "sph_tri_vertex", "crs_get_vertex", "l2c_sample", "l2c_estimate", "c2l_mid", "c2b_vertex",
              "contains_mid", "compact_set", "compact_pass", "uncompact_cell", "origins_get", "pentagon_get",
              "hilbert_pattern", "s2a_mid", "children_origin"]


def h_engine_summary(o):
    s = o["stats"]
    runs = o["scenarios"]
    run_wall = max(o.get("run_wall_s", 0.0), 1e-9)
    faults = {
        "thread_spawn_cold": s["thread_spawn_cold"],
        "thread_exit": s["thread_exit"],
        "late_join": s["late_join"],
        "restart_after_exit": s["restart_after_exit"],
        "hash_rekey": s["hash_rekey"],
        "clock_jump(LD_PRELOAD clock seam: simulated CLOCK_MONOTONIC/REALTIME leap forward 1 ms .. 30 days)": s.get("clock_jumps", 0),
        "disk_fault_points(steps before which a file the library left in its temp directory is torn / lost / zero-tailed / bit-flipped)": s.get("disk_fault_points", 0),
        "disk_faults_applied(0 while the library writes no file)": s.get("disk_faults_applied", {}),
        "scenarios_with_write_path_faults(short write, ENOSPC, EIO, failed fsync, failed rename on files the library opens under its temp directory)": s.get("fs_write_fault_scenarios", 0),
        "write_path_faults_fired(0 while the library writes no file)": s.get("fs_write_faults_fired", 0),
        "caller_threads_restricted_to_1_3_cpus(available_parallelism is part of the environment)": s.get("cpu_limited_threads", 0),
        "scenarios_per_worker_descriptor_limit(RLIMIT_NOFILE 256 / 1024 / 4096 / machine default, by worker range)": s.get("fd_limit_scenarios", {}),
        "scenarios_in_a_private_mount_namespace(/dev/shm, /var/tmp, /tmp are sub-directories of the process's private directory; best effort, needs CAP_SYS_ADMIN)": s.get("private_mount_scenarios", 0),
        "calls_from_thread_local_destructor_at_thread_exit": s.get("teardown_ops", 0),
        "library_internal_threads_taken_under_scheduler_control(pthread_create seam)": s.get("library_threads", 0),
        "instance_handoff": s["instance_handoff"],
        "long_haul_threshold_crossed": s["long_haul_threshold_crossed"],
        "caught_panic_same_cold_and_warm": s["caught_panic_same"],
        "error_same_cold_and_warm": s["err_same"],
        "baton_switches": s["switches"],
    }
    for k, v in s["poison_ops"].items():
        faults["poison_op[%s]" % k] = v
    names = SITE_NAMES + ["sync_op(auto-instrumented)"] * max(0, len(s["yield_preempts"]) - len(SITE_NAMES))
    for i, n in enumerate(s["yield_preempts"]):
        faults["yield_preempt[%s]" % names[i]] = n
    faults["blocked_on_real_lock_handoffs(watchdog)"] = s.get("blocked_handoffs", 0)
    probes = {
        "memo_slots_seen_cold_to_filled(of 270)": o["slots_cold_filled"],
        "memo_slots_seen_warm_hit(of 270)": o["slots_warm_hit"],
        "slots_never_cold": o["slots_never_cold"],
        "slots_never_warm": o["slots_never_warm"],
        "same_op_in_3_threads_of_one_scenario": s["same_op_in_3_threads"],
        "reflected_and_unreflected_same_triangle_adjacent": s["reflected_pair_adjacent"],
        "crs_invocations_reached_10000": s["long_haul_threshold_crossed"],
        "ops_that_filled_a_cold_slot": s["cold_fill_ops"],
        "ops_that_hit_a_warm_slot": s["warm_hit_ops"],
        "foreign_memo_change(diagnostic, expected 0 with per-thread memo)": s["foreign_memo_change"],
        "yield_site_hits": {names[i]: n for i, n in enumerate(s["yield_hits"])},
    }
    gate = [k for k in ("memo_slots_seen_cold_to_filled(of 270)", "memo_slots_seen_warm_hit(of 270)") if probes[k] < 270]
    for k in ("same_op_in_3_threads_of_one_scenario", "reflected_and_unreflected_same_triangle_adjacent", "crs_invocations_reached_10000"):
        if probes[k] == 0:
            gate.append(k)
    return {
        "engine": "H (native baton-passing history simulator, real OS threads, real thread_local!)" + (
            "; built against an auto-instrumented COPY of the sources: a scheduling point in front of every atomic / lock / once-cell / thread-local operation (%s)" % o.get("instrumentation_note", "") if o["profile"] == "release+sync" else ""),
        "profile": o["profile"],
        "runs": runs,
        "runs_per_hour": int(runs / run_wall * 3600),
        "seeds_per_hour": int(runs / run_wall * 3600),
        "multi_thread_runs": o["multi_thread"],
        "threads_per_run_histogram": o["threads_hist"],
        "modes": o["modes"],
        "simulated_time": {
            "note": "the system has no clock; simulated time is reported as logical steps",
            "operations_executed": s["ops"],
            "scheduling_points": s["sched_points"],
        },
        "pool": {
            "ops": o["pool_ops"],
            "with_cold_result": o["pool_usable"],
            "poison_ops": o["pool_poison_ops"],
            "no_cold_result(screened out by the sandboxed pristine-process runner)": o["pool_no_cold_result"],
            "pristine_process_references": o["pool_ops"],
            "reference_wall_s": round(o["ref_wall_s"], 2),
            "tl_vs_fresh_instance_reference_pairs": o["ref_tl_vs_fresh_pairs"],
            "tl_vs_fresh_instance_reference_mismatch": o["ref_tl_vs_fresh_mismatch"],
        },
        "faults_fired": faults,
        "probes": probes,
        "coverage_gate": "pass" if not gate else "warn: " + ", ".join(gate),
        "distinct": {
            "nontrivial_scenario_x_schedule": o["distinct_nontrivial"],
            "schedules(hash of decision list)": o["distinct_schedules"],
            "states(per-thread memo bitmap)": o["distinct_states"],
            "transitions(state, op kind)": o["distinct_transitions"],
            "state_sets_capped": o["states_capped"],
        },
        "op_kinds_executed": s["kinds"],
        "determinism": {"scenarios_run_twice_in_other_processes": o["determinism_checked"], "mismatches": o["determinism_mismatch"]},
        "stalled_worker_ranges_rerun_without_yields": o["stalls"],
        "wall_s": round(o["wall_s"], 2),
    }


def write(path, tier, seed, results, violations, known_hits, harness_errors, wall):
    engines = {}
    evaluations = 0
    nontrivial = 0
    samples = []
    for name, o in results.items():
        if name.startswith("H_"):
            e = h_engine_summary(o)
            evaluations += o["scenarios"] + o["pool_ops"]
            nontrivial += o["distinct_nontrivial"]
            for s in o.get("samples", [])[:2]:
                samples.append({"engine": name, "scenario": s})
        elif name in ("W", "W_sync"):
            e = o["summary"]
            evaluations += o["worlds"]
            nontrivial += o["distinct_nontrivial"]
            samples.extend(o.get("samples", [])[:2])
        elif name == "M":
            e = o["summary"]
            evaluations += o["executions"]
            nontrivial += o["distinct_nontrivial"]
            samples.extend(o.get("samples", [])[:2])
        else:
            continue
        engines[name] = e
    ev = {
        "property_id": "C13",
        "tier": tier,
        "seed": seed,
        "level": "exploration",
        "coverage": {
            "evaluations": evaluations,
            "distinct_nontrivial": nontrivial,
            "rule": ("evaluations = simulated runs: Engine H scenarios (seeded swarm: 1-6 simulated caller threads, 1-40 ops each, "
                     "thread churn, poison arguments, hash re-keying, yield-site preemption, explicit-instance hand-off, long-haul) "
                     "+ one pristine-process reference run per pool op + Engine W cold-world processes + Engine M Miri executions. "
                     "A run is non-trivial if at least 2 simulated threads actually ran AND at least one op hit a memo slot that an "
                     "earlier op of the same thread had filled (H, W) or, for Miri, if at least 2 threads overlapped in time "
                     "(distinct interleaving of op start/end events). distinct = distinct (scenario hash x schedule hash) per engine, "
                     "counted in a hash set by the machinery; engines use disjoint seeds, so the per-engine counts are added."),
            "samples": samples if samples else [{"note": "no multi-thread sample in this run"}],
            "engines": engines,
            "fault_kinds_not_applicable_here": NOT_APPLICABLE_FAULTS,
            "components": {
                "real_code": "all of a5 (src/**), std thread_local!/OnceLock/LazyLock, lazy_static Once; nothing is stubbed or modelled",
                "substituted": "verif::SimHashState replaces RandomState in the two HashSets (compact, lonlat_to_cell) in all engines, so that hash iteration order is a function of the seed",
                "seams_under_the_library": "LD_PRELOAD shim sim/fakeclock.c in the native engines: clock_gettime/gettimeofday/time add a simulator-controlled offset (clock_jump faults); pthread_create is interposed so that threads the library itself starts inside a call run under the baton scheduler. Both are inert on the unchanged tree (it reads no clock and starts no threads).",
                "engine_Hs": "the same real code, built from a COPY of the sources in which tools/instrument.py inserted a scheduling point in front of every atomic / lock / once-cell / thread-local operation (expression-level rewrite X.op() -> X.verif_sync().op(); computes exactly what it computed before)",
            },
            "known_findings_hit": known_hits,
            "harness_errors": harness_errors,
            "violations": [{"engine": n, **v} for n, v in violations],
        },
        "assumptions": [
            "bitwise equality is judged within one binary (one compiler, one libm); cross-platform float differences are outside C13",
            "Engine H serialises simulated threads at op / yield-site granularity: it decides history- and schedule-dependence of results, not data races (those are Engine M's job)",
            "a sampled search: a clean run is evidence, not proof",
            "pristine-process references assume process start-up itself is deterministic (it is: no env, argv, clock or entropy reaches the library)",
        ],
        "wall_s": round(wall, 2),
        "violations": len(violations),
    }
    with open(path, "w") as f:
        json.dump(ev, f, indent=1)
