//! Engine M scenario: a small multi-threaded program over the REAL a5 code, meant to be run
//! under Miri, whose seeded scheduler preempts at basic-block granularity, emulates weak
//! memory, and checks every access with its data-race detector. Threads run freely here (no
//! baton): the interleaving is Miri's, selected by -Zmiri-seed, so (scenario seed, miri seed)
//! is one exactly repeatable execution.
//!
//! argv: <scenario seed> [--threads-mask <bits>] [--max-ops <n>] [--list]
//!
//! Oracle inside the program: every result of the concurrent phase must equal, bit for bit,
//! the result of the same call made afterwards as the first call of a brand-new thread.

use a5::coordinate_systems::{Face, LonLat, Radians, Spherical, IJ};
use a5::core::hilbert::{ij_to_s, s_to_anchor, Orientation};
use a5::projections::DodecahedronProjection;
use std::sync::atomic::{AtomicU64, Ordering};
use std::sync::Arc;

// tiny PRNG of its own (the library crate is not linked into this binary on purpose: it keeps
// the interpreted code small)
struct R(u64);
impl R {
    fn next(&mut self) -> u64 {
        self.0 = self.0.wrapping_add(0x9e3779b97f4a7c15);
        let mut z = self.0;
        z = (z ^ (z >> 30)).wrapping_mul(0xbf58476d1ce4e5b9);
        z = (z ^ (z >> 27)).wrapping_mul(0x94d049bb133111eb);
        z ^ (z >> 31)
    }
    fn below(&mut self, n: u64) -> u64 {
        self.next() % n.max(1)
    }
    fn unit(&mut self) -> f64 {
        (self.next() >> 11) as f64 / (1u64 << 53) as f64
    }
}

#[derive(Clone, Debug, PartialEq)]
enum Op {
    Origins,
    NearestOrigin(u64, u64),
    Pentagon,
    FaceVertices,
    IjToS(u64, u64, u32, u8),
    SToAnchor(u64, u32, u8),
    Res0,
    Children(u64),
    Parent(u64),
    Deserialize(u64),
    Compact(u64, u64),
    Lookup(u64, u64, i32),
    CellCenter(u64),
    TlInverse(u64, u64, u8),
    TlForward(u64, u64, u8),
    QuintantVertices(u32),
    Boundary(u64, i32),
    LookupNan(u8, i32),
    Hex(u64),
    Meta(i32),
    Uncompact(u64),
    Contains(u64, u64, u64),
    PentagonOf(u64),
    Segments(u8, u32),
    LonLatRoundTrip(u64, u64),
    Normalize(u64, u64),
    PentagonVertices(u64, u32, u8, u32),
    ShapeOps(u64, u64),
    VectorOps(u64, u64, u64),
    ChildrenTo(u64, i32),
    UncompactTo(u64, i32),
    /// compact of all descendants of a cell `depth` levels down, minus one of them
    CompactBig(u64, i32, u64),
}

static BIG_CAP: AtomicU64 = AtomicU64::new(0);

fn orient(o: u8) -> Orientation {
    match o % 6 {
        0 => Orientation::UV,
        1 => Orientation::VU,
        2 => Orientation::UW,
        3 => Orientation::WU,
        4 => Orientation::VW,
        _ => Orientation::WV,
    }
}

fn f(b: u64) -> f64 {
    f64::from_bits(b)
}

/// Panics of the library are outcomes (compared like any other result), not failures of the run.
fn exec(op: &Op) -> Result<Vec<u64>, String> {
    match std::panic::catch_unwind(|| exec_inner(op)) {
        Ok(r) => r,
        Err(p) => {
            let msg = p.downcast_ref::<&str>().map(|s| s.to_string()).or_else(|| p.downcast_ref::<String>().cloned()).unwrap_or_default();
            Err(format!("panic: {}", msg))
        }
    }
}

fn exec_inner(op: &Op) -> Result<Vec<u64>, String> {
    Ok(match op {
        Op::Origins => {
            let mut v = Vec::new();
            for o in a5::core::origin::get_origins() {
                v.push(o.id as u64);
                v.push(o.axis.theta().get().to_bits());
                v.push(o.axis.phi().get().to_bits());
                v.push(o.quat[0].to_bits());
                v.push(o.first_quintant as u64);
            }
            v
        }
        Op::NearestOrigin(t, p) => {
            let sp = Spherical::new(Radians::new_unchecked(f(*t)), Radians::new_unchecked(f(*p)));
            vec![a5::core::origin::find_nearest_origin(sp).id as u64]
        }
        Op::Pentagon => {
            use a5::core::pentagon as p;
            let m = p::basis_inverse();
            vec![p::a().x().to_bits(), p::c().y().to_bits(), p::w().x().to_bits(), m.m00.to_bits(), m.m11.to_bits(), p::v_angle().get().to_bits()]
        }
        Op::FaceVertices => {
            let s = a5::core::tiling::get_face_vertices();
            s.get_vertices_vec().iter().flat_map(|v| [v.x().to_bits(), v.y().to_bits()]).collect()
        }
        Op::QuintantVertices(q) => {
            let s = a5::core::tiling::get_quintant_vertices(*q as usize);
            s.get_vertices_vec().iter().flat_map(|v| [v.x().to_bits(), v.y().to_bits()]).collect()
        }
        Op::IjToS(x, y, res, o) => vec![ij_to_s(IJ::new(f(*x), f(*y)), *res as usize, orient(*o))],
        Op::SToAnchor(s, res, o) => {
            let a = s_to_anchor(*s, *res as usize, orient(*o));
            vec![a.k as u64, a.offset.x().to_bits(), a.offset.y().to_bits(), a.flips[0] as i64 as u64, a.flips[1] as i64 as u64]
        }
        Op::Res0 => a5::get_res0_cells()?,
        Op::Children(c) => a5::cell_to_children(*c, None)?,
        Op::Parent(c) => vec![a5::cell_to_parent(*c, None)?],
        Op::Deserialize(c) => {
            let d = a5::core::serialization::deserialize(*c)?;
            vec![d.origin_id as u64, d.segment as u64, d.s, d.resolution as i64 as u64]
        }
        Op::Compact(c, drop) => {
            let mut v = a5::cell_to_children(*c, None)?;
            let mut g = a5::cell_to_children(v[0], None)?;
            v.append(&mut g);
            if *drop > 0 {
                let i = (*drop as usize) % v.len();
                v.remove(i);
            }
            a5::compact(&v)?
        }
        Op::CompactBig(c, depth, drop) => {
            let mut v = a5::cell_to_children(*c, Some(a5::get_resolution(*c) + *depth))?;
            let i = (*drop as usize) % v.len();
            v.remove(i);
            let cap = BIG_CAP.load(Ordering::Relaxed) as usize;
            if cap > 0 && v.len() > cap {
                // (quick tier: just past the size thresholds that matter, not four times past)
                v.truncate(cap);
            }
            let out = a5::compact(&v)?;
            // (a digest keeps the comparison cheap under the interpreter)
            let mut h: u64 = 0xcbf29ce484222325;
            for x in &out {
                h = (h ^ x).wrapping_mul(0x100000001b3);
            }
            vec![out.len() as u64, h]
        }
        Op::Lookup(lon, lat, res) => vec![a5::lonlat_to_cell(LonLat::new(f(*lon), f(*lat)), *res)?],
        Op::CellCenter(c) => {
            let p = a5::cell_to_lonlat(*c)?;
            vec![p.longitude().to_bits(), p.latitude().to_bits()]
        }
        Op::TlInverse(x, y, o) => {
            let s = DodecahedronProjection::get_thread_local().inverse(Face::new(f(*x), f(*y)), *o)?;
            vec![s.theta().get().to_bits(), s.phi().get().to_bits()]
        }
        Op::Boundary(c, seg) => {
            let o = a5::core::cell::CellToBoundaryOptions { closed_ring: false, segments: Some(*seg) };
            a5::cell_to_boundary(*c, Some(o))?.iter().flat_map(|p| [p.longitude().to_bits(), p.latitude().to_bits()]).collect()
        }
        Op::LookupNan(which, res) => {
            let p = match which % 3 {
                0 => LonLat::new(f64::NAN, 0.0),
                1 => LonLat::new(0.0, f64::NAN),
                _ => LonLat::new(f64::INFINITY, 10.0),
            };
            vec![a5::lonlat_to_cell(p, *res)?]
        }
        Op::Hex(v) => {
            let h = a5::u64_to_hex(*v);
            let back = a5::hex_to_u64(&h)?;
            let bad = a5::hex_to_u64("zz").is_err() as u64;
            vec![back, h.len() as u64, bad, a5::get_resolution(*v) as i64 as u64]
        }
        Op::Meta(r) => vec![a5::cell_area(*r).to_bits(), a5::get_num_cells(*r), a5::core::cell_info::get_num_children(*r, *r + 2) as u64, a5::core::serialization::get_stride((*r).clamp(0, 30))],
        Op::Uncompact(c) => {
            let r = a5::get_resolution(*c);
            let mut v = a5::uncompact(&[*c], r + 1)?;
            v.push(a5::uncompact(&[*c], r - 1).is_err() as u64);
            v
        }
        Op::Contains(c, lon, lat) => {
            let d = a5::core::serialization::deserialize(*c)?;
            vec![a5::core::cell::a5cell_contains_point(&d, LonLat::new(f(*lon), f(*lat)))?.to_bits()]
        }
        Op::PentagonOf(c) => {
            let d = a5::core::serialization::deserialize(*c)?;
            let p = a5::core::cell::get_pentagon(&d)?;
            let mut v: Vec<u64> = p.get_vertices_vec().iter().flat_map(|q| [q.x().to_bits(), q.y().to_bits()]).collect();
            v.push(p.get_area().to_bits());
            v
        }
        Op::Segments(o, q) => {
            let origin = &a5::core::origin::get_origins()[*o as usize % 12];
            let (s1, _) = a5::core::origin::quintant_to_segment(*q as usize % 5, origin);
            let (q1, _) = a5::core::origin::segment_to_quintant(s1, origin);
            vec![s1 as u64, q1 as u64, a5::core::origin::is_nearest_origin(origin.axis, origin) as u64]
        }
        Op::LonLatRoundTrip(lon, lat) => {
            use a5::core::coordinate_transforms as ct;
            let sp = ct::from_lon_lat(LonLat::new(f(*lon), f(*lat)));
            let back = ct::to_lon_lat(sp);
            let au = a5::projections::AuthalicProjection;
            vec![sp.theta().get().to_bits(), sp.phi().get().to_bits(), back.longitude().to_bits(), back.latitude().to_bits(), au.inverse(au.forward(Radians::new_unchecked(f(*lat).to_radians()))).get().to_bits()]
        }
        Op::Normalize(lon, lat) => {
            let c: Vec<LonLat> = (0..4).map(|i| LonLat::new(f(*lon) + i as f64 * 0.7, (f(*lat) + i as f64 * 0.3).clamp(-90.0, 90.0))).collect();
            a5::core::coordinate_transforms::normalize_longitudes(c).iter().flat_map(|p| [p.longitude().to_bits(), p.latitude().to_bits()]).collect()
        }
        Op::PentagonVertices(s0, res, o, q) => {
            let a = s_to_anchor(*s0, *res as usize, orient(*o));
            let p = a5::core::tiling::get_pentagon_vertices(*res as i32, *q as usize % 5, &a);
            p.get_vertices_vec().iter().flat_map(|v| [v.x().to_bits(), v.y().to_bits()]).collect()
        }
        Op::ShapeOps(x, y) => {
            let mut sh = a5::core::tiling::get_face_vertices();
            let p = Face::new(f(*x), f(*y));
            let mut v = vec![sh.contains_point(p).to_bits(), sh.get_center().x().to_bits()];
            sh.scale(0.5);
            sh.translate(p);
            v.extend(sh.split_edges(2).get_vertices_vec().iter().flat_map(|q| [q.x().to_bits(), q.y().to_bits()]));
            v
        }
        Op::VectorOps(a, b, t) => {
            use a5::coordinate_systems::Cartesian;
            use a5::utils::vector as vu;
            let ca = Cartesian::new(f(*a).cos(), f(*a).sin(), 0.0);
            let cb = Cartesian::new(0.0, f(*b).cos(), f(*b).sin());
            let s1 = vu::slerp(ca, cb, f(*t));
            vec![s1.x().to_bits(), s1.y().to_bits(), s1.z().to_bits(), vu::vector_difference(ca, cb).to_bits(), vu::triple_product(ca, cb, s1).to_bits()]
        }
        Op::ChildrenTo(c, d) => a5::cell_to_children(*c, Some(a5::get_resolution(*c) + *d))?,
        Op::UncompactTo(c, d) => a5::uncompact(&[*c, *c], a5::get_resolution(*c) + *d)?,
        Op::TlForward(t, p, o) => {
            let sp = Spherical::new(Radians::new_unchecked(f(*t)), Radians::new_unchecked(f(*p)));
            let r = DodecahedronProjection::get_thread_local().forward(sp, *o)?;
            vec![r.x().to_bits(), r.y().to_bits()]
        }
    })
}

/// ops that are the first touch of one lazy table each
fn first_touch(r: &mut R) -> Op {
    match r.below(6) {
        0 => Op::Origins,
        1 => Op::Pentagon,
        2 => Op::IjToS((r.unit() * 3.0).to_bits(), (r.unit() * 3.0).to_bits(), 3, [0u8, 1, 4, 5][r.below(4) as usize]),
        3 => Op::IjToS((r.unit() * 3.0).to_bits(), (r.unit() * 3.0).to_bits(), 3, [2u8, 3][r.below(2) as usize]),
        4 => Op::NearestOrigin((r.unit() * 6.0 - 3.0).to_bits(), (r.unit() * 3.1).to_bits()),
        _ => Op::FaceVertices,
    }
}

fn res0_cell(k: u64) -> u64 {
    // layout: 6 bits face, marker bit right below
    (k % 12) << 58 | 1u64 << 57
}

/// A valid cell of resolution `res` >= 2, built arithmetically (no library call needed).
fn cell_at(face_seg: u64, s: u64, res: u32) -> u64 {
    let bits = 2 * (res - 1);
    ((face_seg % 60) << 58) | ((s & ((1u64 << bits) - 1)) << (58 - bits)) | (1u64 << (58 - bits - 1))
}

/// Contention profile: every thread works on the same one or two cells with the same few
/// functions, so that process-wide keyed state (hand-off slots, "last value" shortcuts) is hit
/// from several threads inside each other's calls.
fn contention_plans(r: &mut R) -> Vec<Vec<Op>> {
    let res = 2 + r.below(3) as u32;
    let x = cell_at(r.next(), r.next(), res);
    let y = if r.below(3) == 0 { cell_at(r.next(), r.next(), res) } else { cell_at(x >> 58, r.next(), res) };
    let n_threads = 2 + r.below(2) as usize;
    let mut plans = Vec::new();
    for _ in 0..n_threads {
        let mut ops = Vec::new();
        for _ in 0..(3 + r.below(3)) {
            let c = if r.below(2) == 0 { x } else { y };
            ops.push(match r.below(10) {
                0..=2 => Op::CellCenter(c),
                3..=5 => Op::Boundary(c, 1),
                6 => Op::Parent(c),
                7 => Op::Children(c),
                8 => Op::Deserialize(c),
                _ => Op::LookupNan(r.below(3) as u8, r.below(2) as i32),
            });
        }
        plans.push(ops);
    }
    plans
}

/// Sizes profile: one or two threads issue calls whose internal buffers have very different
/// sizes, large before small and small before large (stale elements, set_len / truncate
/// mistakes, out-of-bounds or uninitialised reads show up under the interpreter).
fn sizes_plans(r: &mut R) -> Vec<Vec<Op>> {
    let c = cell_at(r.next(), r.next(), 2 + r.below(3) as u32);
    let mut plans = Vec::new();
    for _ in 0..(1 + r.below(2)) {
        let mut ops = Vec::new();
        for _ in 0..(5 + r.below(4)) {
            ops.push(match r.below(8) {
                0 | 1 => Op::Boundary(c, [8, 1, 4, 2, 6, 3][r.below(6) as usize]),
                2 => Op::ChildrenTo(c, [3, 1, 2, 0, 4][r.below(5) as usize]),
                3 => Op::UncompactTo(c, [2, 0, 1, 3][r.below(4) as usize]),
                4 => {
                    let res = [10u32, 3, 7, 1, 6][r.below(5) as usize];
                    Op::SToAnchor(r.below(1u64 << (2 * res)), res, r.below(6) as u8)
                }
                5 => Op::IjToS((r.unit() * 2.0).to_bits(), (r.unit() * 2.0).to_bits(), [9, 2, 5, 1][r.below(4) as usize], r.below(6) as u8),
                6 => Op::Compact(res0_cell(r.next()), r.below(4)),
                _ => Op::Lookup((r.unit() * 360.0 - 180.0).to_bits(), (r.unit() * 170.0 - 85.0).to_bits(), [4, 2, 3, 2][r.below(4) as usize]),
            });
        }
        plans.push(ops);
    }
    plans
}

fn any_op(r: &mut R, allow_tl: bool) -> Op {
    if r.below(3) == 0 {
        // the rest of the public surface, all cheap under the interpreter
        return match r.below(if allow_tl { 11 } else { 9 }) {
            0 => Op::Hex(r.next()),
            1 => Op::Meta(r.below(31) as i32),
            2 => Op::Uncompact(cell_at(r.next(), r.next(), 2 + r.below(4) as u32)),
            3 => Op::Segments(r.below(12) as u8, r.below(5) as u32),
            4 => Op::LonLatRoundTrip((r.unit() * 360.0 - 180.0).to_bits(), (r.unit() * 170.0 - 85.0).to_bits()),
            5 => Op::Normalize((r.unit() * 10.0 + 175.0).to_bits(), (r.unit() * 100.0 - 50.0).to_bits()),
            6 => Op::PentagonVertices(r.below(256), 4, r.below(6) as u8, r.below(5) as u32),
            7 => Op::ShapeOps((r.unit() - 0.5).to_bits(), (r.unit() - 0.5).to_bits()),
            8 => Op::VectorOps(r.unit().to_bits(), r.unit().to_bits(), r.unit().to_bits()),
            9 => Op::PentagonOf(cell_at(r.next(), r.next(), 2 + r.below(4) as u32)),
            _ => Op::Contains(cell_at(r.next(), r.next(), 2 + r.below(3) as u32), (r.unit() * 360.0 - 180.0).to_bits(), (r.unit() * 170.0 - 85.0).to_bits()),
        };
    }
    match r.below(if allow_tl { 16 } else { 12 }) {
        0 => Op::Res0,
        1 => Op::Children(res0_cell(r.next())),
        2 => Op::Parent(res0_cell(r.next())),
        3 => Op::Deserialize(res0_cell(r.next())),
        4 => Op::Compact(res0_cell(r.next()), r.below(4)),
        5 => Op::SToAnchor(r.below(64), 3, r.below(6) as u8),
        6 => Op::QuintantVertices(r.below(5) as u32),
        7 => Op::Lookup((r.unit() * 360.0 - 180.0).to_bits(), (r.unit() * 170.0 - 85.0).to_bits(), r.below(2) as i32),
        8..=11 => first_touch(r),
        12 => Op::CellCenter(res0_cell(r.next())),
        13 => Op::Lookup((r.unit() * 360.0 - 180.0).to_bits(), (r.unit() * 170.0 - 85.0).to_bits(), 2),
        14 => Op::TlInverse((r.unit() * 0.5 - 0.25).to_bits(), (r.unit() * 0.5 - 0.25).to_bits(), r.below(12) as u8),
        _ => Op::TlForward((r.unit() * 6.0 - 3.0).to_bits(), (r.unit() * 0.3).to_bits(), 0),
    }
}

fn main() {
    std::panic::set_hook(Box::new(|_| {}));
    let args: Vec<String> = std::env::args().collect();
    let seed: u64 = args.get(1).and_then(|s| s.parse().ok()).unwrap_or(0);
    let mut threads_mask: u64 = u64::MAX;
    let mut max_ops: usize = usize::MAX;
    let mut list = false;
    let mut population_arg: usize = 0;
    let mut big_arg: usize = 0;
    let mut big_variant: usize = 0;
    let mut big_cap: usize = 0;
    let mut print_refs = false;
    let mut expect: Option<u64> = None;
    let mut i = 2;
    while i < args.len() {
        match args[i].as_str() {
            "--threads-mask" => {
                threads_mask = args[i + 1].parse().unwrap_or(u64::MAX);
                i += 2;
            }
            "--max-ops" => {
                max_ops = args[i + 1].parse().unwrap_or(usize::MAX);
                i += 2;
            }
            "--list" => {
                list = true;
                i += 1;
            }
            "--big" => {
                big_arg = args[i + 1].parse().unwrap_or(0);
                i += 2;
            }
            "--cap" => {
                big_cap = args[i + 1].parse().unwrap_or(0);
                i += 2;
            }
            "--variant" => {
                big_variant = args[i + 1].parse().unwrap_or(0);
                i += 2;
            }
            "--population" => {
                population_arg = args[i + 1].parse().unwrap_or(0);
                i += 2;
            }
            "--print-refs" => {
                print_refs = true;
                i += 1;
            }
            "--expect" => {
                expect = u64::from_str_radix(&args[i + 1], 16).ok();
                i += 2;
            }
            _ => i += 1,
        }
    }
    let mut r = R(seed ^ 0x6d697269);
    // population profile (--population N, chosen by the driver): N simultaneously alive caller threads
    let population: usize = population_arg;
    let contention = population == 0 && big_arg == 0 && seed % 3 == 2;
    let sizes = population == 0 && big_arg == 0 && !contention && seed % 5 == 3;
    let n_threads = if contention || sizes || population > 0 || big_arg > 0 { 0 } else { 2 + r.below(3) as usize };
    // at most two threads may use the per-thread projection (its cold start dominates the cost)
    let mut tl_budget = 2;
    let mut plans: Vec<Vec<Op>> = Vec::new();
    for _ in 0..n_threads {
        let n_ops = 2 + r.below(4) as usize;
        let allow_tl = tl_budget > 0 && r.below(2) == 0;
        if allow_tl {
            tl_budget -= 1;
        }
        let mut ops = vec![first_touch(&mut r)];
        while ops.len() < n_ops {
            ops.push(any_op(&mut r, allow_tl));
        }
        ops.truncate(max_ops.max(1));
        plans.push(ops);
    }
    if sizes {
        plans = sizes_plans(&mut r);
        for p in plans.iter_mut() {
            p.truncate(max_ops.max(1));
        }
    }
    if population > 0 {
        // Thread population (seeded change c13-an: a bounded pool of per-thread projections handed
        // out round-robin, so that the k-th and the (k+128)-th caller thread share one instance).
        // All threads are spawned without any join in between, so no two of them are ordered by
        // happens-before: per-thread state that is handed to a second thread while (or after) the
        // first one used it is a data race for Miri's detector, whatever the values are. Every
        // thread makes one cheap call through the per-thread projection; the first one makes two.
        plans = Vec::new();
        for t in 0..population {
            let op = Op::TlForward(((t % 7) as f64 * 0.7 - 2.0).to_bits(), (0.05 + (t % 5) as f64 * 0.04).to_bits(), 0);
            plans.push(if t == 0 { vec![op.clone(), Op::TlForward((1.3f64).to_bits(), (0.21f64).to_bits(), 0), op] } else { vec![op] });
        }
    }
    BIG_CAP.store(big_cap as u64, Ordering::Relaxed);
    if big_arg > 0 {
        // Big-input profile (seeded change c13-as: a process-wide arena for inputs of 8 192 cells
        // and more, claimed with a non-atomic flag). Two free-running threads, one call each, on
        // DIFFERENT big arguments: whatever two such calls share without synchronisation is a data
        // race for the detector, however narrow the window is on real hardware.
        let d = big_arg as i32;
        if big_variant == 1 {
            // both threads trace a dense boundary (different cells): 5 * segments vertices each
            let seg = if big_cap > 0 { (big_cap / 5) as i32 } else if d >= 7 { 2048 } else { 1 << (d + 3) };
            plans = vec![vec![Op::Boundary(res0_cell(r.next()), seg)], vec![Op::Boundary(res0_cell(r.next() | 1) ^ (1u64 << 58), seg)]];
        } else {
            // both threads compact a big set (different ones); some executions add a second kind
            let mut p0 = vec![Op::CompactBig(res0_cell(r.next()), d, r.next())];
            let mut p1 = vec![Op::CompactBig(res0_cell(r.next() | 1), d, r.next())];
            match if big_cap > 0 { 0 } else { r.below(3) } {
                0 => {}
                1 => p1.push(Op::UncompactTo(res0_cell(r.next()), d)),
                _ => {
                    p0.insert(0, Op::ChildrenTo(res0_cell(r.next()), d));
                    p1.insert(0, Op::UncompactTo(res0_cell(r.next()), d - 1));
                }
            }
            plans = vec![p0, p1];
        }
    }
    if contention {
        plans = contention_plans(&mut r);
        for p in plans.iter_mut() {
            p.truncate(max_ops.max(1));
        }
    }
    let plans: Vec<Vec<Op>> = plans.into_iter().enumerate().filter(|(t, _)| *t >= 64 || threads_mask & (1 << t) != 0).map(|(_, p)| p).collect();
    if list {
        for (t, p) in plans.iter().enumerate() {
            println!("t{}: {:?}", t, p);
        }
        return;
    }
    // Bias Miri's scheduler towards the windows where the library reads or writes hidden state:
    // at a seed-dependent subset of the library's yield sites the thread offers the processor.
    // (yield_now is a scheduling hint only; it adds no synchronisation.)
    fn yield_hook(site: u32) {
        thread_local! { static N: std::cell::Cell<u64> = const { std::cell::Cell::new(0) }; }
        let n = N.with(|c| {
            let v = c.get().wrapping_add(1);
            c.set(v);
            v
        });
        let k = YIELD_EVERY.load(Ordering::Relaxed);
        if k > 0 && (n.wrapping_mul(0x9e3779b97f4a7c15) ^ site as u64) % k == 0 {
            std::thread::yield_now();
        }
    }
    static YIELD_EVERY: AtomicU64 = AtomicU64::new(0);
    YIELD_EVERY.store([0u64, 2, 3, 7][(seed % 4) as usize], Ordering::Relaxed);
    // event tickets: Relaxed, so they add no happens-before edge that could mask a race
    let ticket = Arc::new(AtomicU64::new(0));
    let mut handles = Vec::new();
    for (t, plan) in plans.iter().cloned().enumerate() {
        let ticket = ticket.clone();
        handles.push(std::thread::spawn(move || {
            a5::verif::set_yield_hook(Some(yield_hook));
            let mut out = Vec::new();
            for op in &plan {
                let s = ticket.fetch_add(1, Ordering::Relaxed);
                let res = exec(op);
                let e = ticket.fetch_add(1, Ordering::Relaxed);
                out.push((t, op.clone(), res, s, e));
            }
            out
        }));
    }
    let mut all = Vec::new();
    for h in handles {
        all.extend(h.join().expect("a simulated caller thread panicked"));
    }
    // reference phase: each distinct op as the first call of a brand-new thread, one at a time
    let mut distinct: Vec<Op> = Vec::new();
    for (_, op, _, _, _) in &all {
        // (big-input profile: the oracle is the data-race detector; a reference run of every big
        // call would double the cost of the execution)
        if big_arg == 0 && !distinct.contains(op) {
            distinct.push(op.clone());
        }
    }
    let mut mismatches = 0;
    let mut ref_hash: u64 = 0xcbf29ce484222325;
    // contention profile: all references in ONE brand-new thread (its cold start is paid once);
    // otherwise each op is the first call of its own brand-new thread
    let shared_refs: Vec<Result<Vec<u64>, String>> = if contention || population > 0 {
        let d2 = distinct.clone();
        std::thread::spawn(move || d2.iter().map(exec).collect()).join().expect("reference thread panicked")
    } else {
        Vec::new()
    };
    for (di, op) in distinct.iter().enumerate() {
        let o2 = op.clone();
        let reference = if contention || population > 0 {
            shared_refs[di].clone()
        } else {
            std::thread::spawn(move || exec(&o2)).join().expect("reference thread panicked")
        };
        match &reference {
            Ok(v) => {
                for x in v {
                    ref_hash = (ref_hash ^ x).wrapping_mul(0x100000001b3);
                }
            }
            Err(e) => {
                for x in e.bytes() {
                    ref_hash = (ref_hash ^ x as u64).wrapping_mul(0x100000001b3);
                }
            }
        }
        ref_hash = ref_hash.rotate_left(5);
        if print_refs {
            println!("REF {:?} => {:?}", op, reference);
        }
        for (t, op2, res, _, _) in &all {
            if op2 == op && *res != reference {
                mismatches += 1;
                println!("MISMATCH thread={} op={:?} got={:?} reference(cold thread)={:?}", t, op, res, reference);
            }
        }
    }
    // interleaving measure: order of (thread, start/end) events by ticket
    let mut events: Vec<(u64, usize, u8)> = Vec::new();
    for (t, _, _, s, e) in &all {
        events.push((*s, *t, 0));
        events.push((*e, *t, 1));
    }
    events.sort();
    let mut h: u64 = 0xcbf29ce484222325;
    let mut overlap = false;
    let mut open: Vec<usize> = Vec::new();
    for (_, t, k) in &events {
        h = (h ^ (*t as u64 * 2 + *k as u64)).wrapping_mul(0x100000001b3);
        if *k == 0 {
            if !open.is_empty() {
                overlap = true;
            }
            open.push(*t);
        } else {
            open.retain(|x| x != t);
        }
    }
    println!("REFHASH {:016x}", ref_hash);
    if let Some(e) = expect {
        // cross-engine oracle: the same scenario run natively, one op per fresh thread, in another
        // process and outside the interpreter must give the same bits
        if e != ref_hash {
            mismatches += 1;
            println!("MISMATCH reference values differ from the natively computed ones: {:016x} vs {:016x}", ref_hash, e);
        }
    }
    println!("MIRI-SCN seed={} threads={} ops={} distinct_ops={} order={:016x} overlap={} mismatches={}", seed, plans.len(), all.len(), distinct.len(), h, overlap, mismatches);
    if mismatches > 0 {
        std::process::exit(101);
    }
}
