#!/bin/bash
# usage: tools/try_patch.sh <patch.diff> [check args...]   - apply a patch to /repo, run the check, always revert
set -u
P=$(readlink -f "$1"); shift
cd /repo || exit 2
if ! git diff --quiet; then echo "/repo has uncommitted changes"; exit 2; fi
git apply "$P" || { echo "patch does not apply"; exit 2; }
cd /verif
./check C13 "$@"; rc=$?
git -C /repo checkout -- . ; git -C /repo clean -fdq src tests 2>/dev/null
echo "check exit=$rc"
exit $rc
