#!/bin/bash
# usage: tools/try_patch.sh <patch.diff> [check args...]
# Applies a patch in a scratch worktree of /repo (never in /repo itself) and runs the check against it.
set -u
P=$(readlink -f "$1"); shift
WT=/tmp/wt/try-$$
git -C /repo worktree add -q $WT HEAD || exit 2
git -C $WT apply "$P" || { echo "patch does not apply"; git -C /repo worktree remove --force $WT; exit 2; }
cd /verif
VERIF_WORK=/verif/work-try-$$ VERIF_REPO=$WT ./check C13 "$@"; rc=$?
git -C /repo worktree remove --force $WT; rm -rf /verif/work-try-$$
echo "check exit=$rc"
exit $rc
