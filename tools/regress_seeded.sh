#!/bin/bash
# usage: tools/regress_seeded.sh [ids...]   - re-check that every seeded change (and own mutant) is still caught.
# Works in a scratch worktree of /repo (never in /repo itself), via VERIF_REPO.
set -u
WT=/tmp/wt/regress
git -C /repo worktree remove --force $WT 2>/dev/null; git -C /repo worktree prune
git -C /repo worktree add -q $WT HEAD || exit 2
cd /verif
ids=("$@")
if [ ${#ids[@]} -eq 0 ]; then ids=($(ls seeded) m1_global_memo m2_racy_origins m3_crs_budget m4_global_call_count m5_leaked_lock m6_lock_order_inversion m7_devshm_cache); fi
for id in "${ids[@]}"; do
  if [ -f seeded/$id/patch.diff ]; then p=seeded/$id/patch.diff; else p=mutants/$id.diff; fi
  git -C $WT checkout -q -- . ; git -C $WT apply /verif/$p || { echo "$id: patch does not apply"; continue; }
  case $id in
    c13-g|c13-an|c13-as|c13-aw|m1_global_memo|m2_racy_origins) eng=M ;;
    c13-ag|c13-aj|c13-au|m7_devshm_cache) eng=W ;;
    c13-am) eng=Ws ;;
    c13-ap) eng=Hs,Ws ;;
    m6_lock_order_inversion) eng=H ;;
    c13-af|c13-w) eng=H,Hd,W ;;
    c13-j|c13-t|c13-ac|c13-ae) eng=Hs ;;
    *) eng=H,Hd ;;
  esac
  t0=$(date +%s)
  out=$(VERIF_WORK=/verif/work-regress VERIF_REPO=$WT timeout 3000 ./check C13 --tier quick --engines $eng 2>&1); rc=$?
  n=$(echo "$out" | grep -c "^VIOLATION")
  echo "$id engines=$eng exit=$rc violations=$n time=$(( $(date +%s) - t0 ))s :: $(echo "$out" | grep -m1 '^  ' | cut -c1-150)"
  find /verif/replays -name 'C13-*.json' -delete
done
git -C /repo worktree remove --force $WT; rm -rf /verif/work-regress
