#!/usr/bin/env python3
"""Automatic scheduling-point instrumentation of a COPY of the repository (never of /repo itself).

usage: instrument.py <repo dir> <output dir>

Copies Cargo.toml, Cargo.lock and src/ of <repo dir> to <output dir> and inserts a cooperative
scheduling point in front of every synchronisation operation in src/**.rs: atomic loads, stores
and read-modify-writes, mutex / once-cell / thread-local / RefCell / condvar / channel accesses.
The insertion is expression level -- `X.load(o)` becomes `X.verif_sync().load(o)` -- where
`verif_sync(&self) -> &Self` is a blanket trait method that calls `verif::yield_point(SYNC)` and
returns its receiver, so neither statement boundaries nor types have to be understood, and the
program computes exactly what it computed before.

Purpose: the hand-placed yield sites of the `verif` feature cover today's code. A change that adds
NEW shared state guards it with new atomics or locks, which have no yield site; with this pass the
native simulator can still switch threads exactly at those operations (windows of a few
instructions between a check and its use). If the instrumented copy does not compile (a method
of the same name that needs `&mut self`, say), the engine that uses it is skipped with a note:
never an alarm.
"""
import os
import re
import shutil
import sys

METHODS = [
    "load", "store", "swap", "compare_exchange", "compare_exchange_weak", "compare_and_swap",
    "fetch_add", "fetch_sub", "fetch_and", "fetch_or", "fetch_xor", "fetch_nand", "fetch_max", "fetch_min", "fetch_update",
    "lock", "try_lock", "get_or_init", "get_or_try_init", "call_once", "call_once_force",
    "with", "with_borrow", "with_borrow_mut", "try_with", "borrow", "borrow_mut", "try_borrow", "try_borrow_mut",
    "wait", "wait_timeout", "notify_one", "notify_all", "send", "recv", "try_recv", "try_send",
]
# RwLock operations share their names with io::Read / io::Write methods, whose receivers are often
# `&mut`: instrumented first, dropped (--no-rw) by the driver if the copy does not build with them
RW_METHODS = ["read", "write", "try_read", "try_write"]
PATTERN = re.compile(r"\.(" + "|".join(METHODS + RW_METHODS) + r")\(")
PATTERN_NO_RW = re.compile(r"\.(" + "|".join(METHODS) + r")\(")

INLINE_MOD = re.compile(r"^(\s*)(?:pub(?:\([^)]*\))?\s+)?mod\s+\w+\s*\{\s*$")

TRAIT = '''
// ---- appended by /verif/tools/instrument.py (automatic sync-point instrumentation) ----
/// Blanket helper: a scheduling point in front of a synchronisation operation.
pub trait VerifSync {
    fn verif_sync(&self) -> &Self;
}

impl<T: ?Sized> VerifSync for T {
    #[inline]
    fn verif_sync(&self) -> &Self {
        yield_point(site::SYNC_OP);
        self
    }
}
'''


def instrument_source(text):
    out = []
    n = 0
    for line in text.split("\n"):
        stripped = line.lstrip()
        if stripped.startswith("//"):
            out.append(line)
            continue
        # leave string literals alone in the simplest possible way: skip lines with a quote before the match
        def repl(m):
            nonlocal n
            prefix = line[: m.start()]
            if prefix.count('"') % 2 == 1:
                return m.group(0)
            n += 1
            return ".verif_sync()." + m.group(1) + "("
        out.append((PATTERN_NO_RW if NO_RW else PATTERN).sub(repl, line))
    return "\n".join(out), n


def add_use(text):
    lines = text.split("\n")
    i = 0
    # skip leading comments, blank lines and inner attributes
    while i < len(lines) and (lines[i].strip() == "" or lines[i].lstrip().startswith("//") or lines[i].lstrip().startswith("#![")):
        i += 1
    lines.insert(i, "#[allow(unused_imports)]\nuse crate::verif::VerifSync as _;")
    # inline modules have a scope of their own
    out = []
    for line in lines:
        out.append(line)
        m = INLINE_MOD.match(line)
        if m:
            out.append(m.group(1) + "    #[allow(unused_imports)]\n" + m.group(1) + "    use crate::verif::VerifSync as _;")
    return "\n".join(out)


NO_RW = False


def main():
    global NO_RW
    args = [a for a in sys.argv[1:] if a != "--no-rw"]
    NO_RW = "--no-rw" in sys.argv[1:]
    src, dst = args[0], args[1]
    if os.path.exists(dst):
        for item in ("src", "Cargo.toml", "Cargo.lock"):
            p = os.path.join(dst, item)
            if os.path.isdir(p):
                shutil.rmtree(p)
            elif os.path.exists(p):
                os.remove(p)
    os.makedirs(dst, exist_ok=True)
    for item in ("Cargo.toml", "Cargo.lock"):
        shutil.copy(os.path.join(src, item), os.path.join(dst, item))
    shutil.copytree(os.path.join(src, "src"), os.path.join(dst, "src"))
    total = 0
    files = 0
    for root, _, names in os.walk(os.path.join(dst, "src")):
        for name in names:
            if not name.endswith(".rs"):
                continue
            path = os.path.join(root, name)
            rel = os.path.relpath(path, os.path.join(dst, "src"))
            with open(path) as f:
                text = f.read()
            if rel == "verif.rs":
                # new site id = old COUNT; COUNT grows by one; name table grows by one
                m = re.search(r"pub const COUNT: u32 = (\d+);", text)
                if not m:
                    print("instrument: verif.rs has no site::COUNT", file=sys.stderr)
                    sys.exit(3)
                old = int(m.group(1))
                text = text.replace(m.group(0), "pub const SYNC_OP: u32 = %d;\n    pub const COUNT: u32 = %d;" % (old, old + 1))
                text = re.sub(r'(pub const SITE_NAMES: \[&str; site::COUNT as usize\] = \[)', r'\1\n    // (one more entry appended at the end by instrument.py)', text)
                # append the name before the closing of the table: the table ends with the last "];" after SITE_NAMES
                idx = text.index("pub const SITE_NAMES")
                end = text.index("];", idx)
                text = text[:end] + '    "sync_op",\n' + text[end:]
                text += TRAIT
                with open(path, "w") as f:
                    f.write(text)
                continue
            new, n = instrument_source(text)
            if n:
                new = add_use(new)
                total += n
                files += 1
                with open(path, "w") as f:
                    f.write(new)
    print("instrumented %d synchronisation operations in %d files" % (total, files))


if __name__ == "__main__":
    main()
