#!/bin/bash
# usage: tools/verify_seeded.sh <worktree> <id>
# Confirms a sub-agent's seeded defect in its own scratch worktree: patch applies on a clean checkout,
# the 150 tests pass with it, the demo fails with it and passes without it. Then files it under /verif/seeded/<id>/.
set -u
WT=$1; ID=$2
cd "$WT" || exit 2
[ -f MUTANT.diff ] && [ -f DEMO.rs ] || { echo "missing MUTANT.diff or DEMO.rs"; exit 2; }
cp MUTANT.diff /tmp/$ID.diff; cp DEMO.rs /tmp/$ID.demo.rs; cp NOTES.md /tmp/$ID.notes.md 2>/dev/null
git checkout -q -- . ; rm -f tests/zz_demo.rs
git apply --check /tmp/$ID.diff || { echo "patch does not apply on clean checkout"; exit 2; }
cp /tmp/$ID.demo.rs tests/zz_demo.rs
echo "== demo WITHOUT change (must pass)"
cargo test --offline --test zz_demo 2>&1 | grep -E "^test result|error" | head -3
orig=$?
git apply /tmp/$ID.diff
echo "== demo WITH change (must fail)"
cargo test --offline --test zz_demo 2>&1 | grep -E "^test result|error(\[|:)" | head -3
rm -f tests/zz_demo.rs
echo "== existing suite WITH change (must be 150 passed)"
cargo test --workspace --no-fail-fast --offline 2>&1 | grep -E '^test result' | awk '{p+=$4; f+=$6} END {print "passed",p,"failed",f}'
echo "== builds with --features verif"
cargo build --offline --features verif 2>&1 | tail -1
mkdir -p /verif/seeded/$ID
cp /tmp/$ID.diff /verif/seeded/$ID/patch.diff; cp /tmp/$ID.demo.rs /verif/seeded/$ID/demo.rs; cp /tmp/$ID.notes.md /verif/seeded/$ID/NOTES.md 2>/dev/null
echo "filed under /verif/seeded/$ID"
